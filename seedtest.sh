#!/bin/sh
# usage: seedtest.sh <check id> <patch file> [tier]
# Applies a seeded change to a scratch worktree of /repo (never to /repo itself), runs the check against
# it through VERIF_REPO, removes the worktree. Evidence of the run goes to a scratch VERIF_ROOT copy? No:
# the evidence file in /verif is restored afterwards.
id=$1; patch=$2; tier=${3:-quick}
wt=/tmp/wt/seedtest-$$
git -C /repo worktree add -q --detach $wt HEAD || exit 3
git -C $wt apply "$patch" || { echo "PATCH DOES NOT APPLY"; git -C /repo worktree remove --force $wt; exit 3; }
cp /verif/evidence/$id.json /var/tmp/seedtest.$$.ev 2>/dev/null
cd /verif && VERIF_REPO=$wt ./vc check "$id" --tier "$tier" > /var/tmp/seedtest.$$.log 2>&1; rc=$?
git -C /repo worktree remove --force $wt; git -C /repo worktree prune
grep -c '^VIOLATION' /var/tmp/seedtest.$$.log | sed 's/^/violation lines: /'
grep '^  key=' /var/tmp/seedtest.$$.log | sort | uniq -c | head -8
tail -1 /var/tmp/seedtest.$$.log
rm -f /var/tmp/seedtest.$$.log
[ -f /var/tmp/seedtest.$$.ev ] && mv /var/tmp/seedtest.$$.ev /verif/evidence/$id.json
echo "rc=$rc"
exit $rc
