#!/bin/sh
# usage: seedtest.sh <check id> <patch file> [tier]   -- applies a seeded change to /repo, runs the check, reverts.
id=$1; patch=$2; tier=${3:-quick}
cd /repo || exit 3
if [ -n "$(git status --porcelain --untracked-files=no)" ]; then echo "repo not clean"; exit 3; fi
git apply "$patch" || { echo "PATCH DOES NOT APPLY"; exit 3; }
cd /verif && ./vc check "$id" --tier "$tier" > /var/tmp/seedtest.$$.log 2>&1; rc=$?
git -C /repo checkout -- . 
grep -c '^VIOLATION' /var/tmp/seedtest.$$.log | sed 's/^/violation lines: /'
grep '^  key=' /var/tmp/seedtest.$$.log | sort | uniq -c | head -8
tail -1 /var/tmp/seedtest.$$.log
rm -f /var/tmp/seedtest.$$.log
echo "rc=$rc"
# restore the evidence of the unchanged tree
git -C /verif checkout -- evidence 2>/dev/null
exit $rc
