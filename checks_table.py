# Table of claimed checks; read by mkmanifest.py. One check(...) call per property.
PENDING = {}
NOTES = "All checks are bounded exhaustive explorations of the real Go code built from /repo's working tree (see DESIGN.md). ./vc regenerates the build overlay on every run."
ENGINES = [
    {"name": "ev", "path": "/verif/engine/ev", "serves_properties": ["*"], "kind_free_text": "evidence, violation artefacts, known-findings matching"},
    {"name": "cm", "path": "/verif/engine/cm", "serves_properties": ["C04", "C07", "C15"], "kind_free_text": "contract model: formulas and byte-layout tables extracted from Solidity/Ralph sources at check time"},
]

check("C07", "exploration",
      "Exhaustive over the whole input space n=0..255: node CalculateQuorum, the copy compiled into the explorer backend, and the formulas extracted from Messages.sol and governance.ral are evaluated for every n and compared with floor(2n/3)+1 and the BFT inequalities. The space is finite and fully enumerated, so this decides the property.",
      "Contract formulas are extracted from source text by a recognised-subset parser with uint256 floor-division semantics (no solc / Ralph compiler in the sandbox); leaving the subset is exit 2, not a verdict.",
      "exhaustive enumeration of n=0..255 against Go code and extracted contract formulas", "DESIGN.md 5/C07", "E-ENUM + contract model")
