# Table of claimed checks; read by mkmanifest.py. One check(...) call per property.
PENDING = {}
NOTES = "All checks are bounded exhaustive explorations of the real Go code built from /repo's working tree (see DESIGN.md). ./vc regenerates the build overlay on every run."
ENGINES = [
    {"name": "ev", "path": "/verif/engine/ev", "serves_properties": ["*"], "kind_free_text": "evidence, violation artefacts, known-findings matching"},
    {"name": "cm", "path": "/verif/engine/cm", "serves_properties": ["C04", "C07", "C15"], "kind_free_text": "contract model: formulas and byte-layout tables extracted from Solidity/Ralph sources at check time"},
]

check("C07", "exploration",
      "Exhaustive over the whole input space n=0..255: node CalculateQuorum, the copy compiled into the explorer backend, and the formulas extracted from Messages.sol and governance.ral are evaluated for every n and compared with floor(2n/3)+1 and the BFT inequalities. The space is finite and fully enumerated, so this decides the property.",
      "Contract formulas are extracted from source text by a recognised-subset parser with uint256 floor-division semantics (no solc / Ralph compiler in the sandbox); leaving the subset is exit 2, not a verdict.",
      "exhaustive enumeration of n=0..255 against Go code and extracted contract formulas", "DESIGN.md 5/C07", "E-ENUM + contract model")

check("C05", "exploration",
      "Bounded exhaustive enumeration against the real vaa.Marshal/Unmarshal: a boundary product of VAA values (all pairs of non-default fields for every signature-count x index-pattern x payload-length combination, payloads up to 64 KiB, 1 MiB thorough) must round-trip field-for-field with the same digest; every byte string of length 0..2 and every structured single edit (prefix, 7 substitutions per offset, deletion, 2 insertions per offset, every signature-count byte, tail extensions) of ~20 valid encodings must either be rejected with (nil, err) or re-encode to exactly itself; inputs are exact-capacity so over-reads panic. No sampling; exploration level because the value/byte spaces are infinite and only the stated boundary families are complete.",
      "Field alphabets are boundary values read off the code; coverage-guided fuzzing (named in the quantifier) is a different family and is replaced by the exhaustive edit sets.",
      "exhaustive boundary-product and single-edit enumeration against the real codec", "DESIGN.md 5/C05", "E-ENUM")
check("C06", "exploration",
      "Bounded exhaustive enumeration against the real VerifySignatures (tree copy and the copy pinned by the explorer backend): 14 guardian-list shapes of length 0..4 including repeated addresses x every signature sequence of length <=2 over (index, signer, 9 corruption kinds), every uncorrupted sequence of length 3 (4 in thorough), every valid subset with every single corruption; for n=19 and 255 runs and spread subsets at quorum-1/quorum/quorum+1/n with every single-step corruption. Oracle: an independent predicate (own body layout, own double keccak, ecrecover).",
      "crypto.Ecrecover is shared by oracle and implementation (trusted primitive). Lists of length 5..18 and 20..254 are not enumerated.",
      "exhaustive enumeration of signature sequences and single-step corruptions vs an independent predicate", "DESIGN.md 5/C06", "E-ENUM")
check("C04", "exploration",
      "Bounded exhaustive enumeration against the real serializer: every body tuple with up to 4 (thorough 5) fields away from default over boundary alphabets (incl. sub-second times, payload shapes p / p||00 / 00||p / 999..65536 bytes) x 5 header variants. Oracles: byte equality with a layout written from the statement, digest = keccak(keccak(body)), independence from header and sub-second part, injectivity by a map over all produced bodies, no aliasing of returned bodies; every Marshal() output is replayed through layout tables extracted at check time from Messages.sol parseVM and governance.ral parseAndVerifyVAA (offsets, widths, body start, hash rule).",
      "Contract sources interpreted through a recognised syntactic subset (no solc/Ralph compiler); leaving the subset is exit 2.",
      "exhaustive boundary-product enumeration + replay through extracted contract layout tables", "DESIGN.md 5/C04", "E-ENUM + contract model")

ENGINES += [
    {"name": "mc", "path": "/verif/engine/mc", "serves_properties": ["C04", "C05", "C06"], "kind_free_text": "parallel product enumeration helpers"},
    {"name": "proch", "path": "/verif/harness/proch", "serves_properties": ["C01", "C02", "C13", "C14"], "kind_free_text": "explicit-state BFS over event histories of the real Processor handlers (fresh real processor per history, state-key pruning, reference model + independent verifier on every transition)"},
    {"name": "vtime", "path": "/verif/engine/vtime", "serves_properties": ["C01", "C02", "C08", "C09", "C10", "C13", "C14", "C18"], "kind_free_text": "virtual clock substituted for package time in selected repo files by import rewriting in the build overlay"},
]

check("C01", "model_checking",
      "Explicit-state breadth-first search over event histories of the real Processor handlers (guardian-set updates, local observations incl. a same-id/later-timestamp variant, own-signature loopbacks delivered at any later point, gossiped observations: valid by every guardian of both sets and an outsider, forged, claiming another member's address, over another digest, for an unknown digest; 9 inbound signed-VAA variants signed by the previous/current/next set). Every history is replayed on a fresh real processor + store; one history is kept per canonical state key; in every reached state an independent decoder/verifier (own layout, own double keccak, ecrecover) checks every SignedVAAWithQuorum broadcast, every store change and every VAAQuorum event against the guardian set the statement prescribes. Sets of size 1..4 (thorough 1..6) with every own-key position fully, sizes 7/13/19 from a non-initial state (quorum-2 signatures already delivered) at three signer placements.",
      "Handler invocations are atomic (single-goroutine Run loop); hooks are overlay-injected exported wrappers; p2p transport out of scope; store is badger in memory mode through the real db.Database type.",
      "explicit-state BFS over handler-event histories of the real processor, state-key pruning, independent verifier as invariant", "DESIGN.md 5/C01", "E-BFS (proch)")
check("C02", "model_checking",
      "Explicit-state search over the real Processor handlers with a reference model of the publish point (maps written from the statement) compared with the real outputs on every transition: (A) free histories incl. governance-emitter observations, operator injection, re-observation, invalid traffic, set update; (B) permutation mode: every ordering of fixed event multisets (message + every signer subset for n=1..4 (5 thorough), with invalid traffic, duplicates, re-observation, a set update; n=13/19 at quorum-1/quorum/quorum+1 from a non-initial state) with a confluence check over the final states of all complete orderings; (C) histories without a local observation never publish.",
      "Confluence is judged only where the node is a member of the set (the statement's 'its own included') and the multiset has no set update; operator injection is explored only after a set is known.",
      "explicit-state BFS / all-orderings exploration of the real processor against a reference model of the publish point", "DESIGN.md 5/C02", "E-BFS (proch)")

check("C13", "model_checking",
      "Explicit-state search over adversarial input histories of the real Processor handlers: chain messages with empty / 1001-byte / oversized payloads, 1970 and post-2106 timestamps, zero address, governance emitter, same id re-observed 45 s later; gossip with hash length 0/31/33, signature length 0/64/66, nil/short/long address, all-nil message; 17 inbound-VAA shapes (nil, 56/57/58 bytes, 255 signatures announced, empty-payload quorum VAA, version 2, truncated signature, and the C01 validity classes); injection; guardian sets with 1/3/19 members and with no keys, in any order; cleanup ticks after 0 s/31 s/6 min/2 h; no guardian set yet is a legal initial state. Exact virtual ages are part of the state key. Any panic in any transition is a violation; in every newly reached state the good suffix (Set, fresh Msg, loopback, quorum of observations) must still publish.",
      "Handler level (VerifDispatch mirrors the Run loop's select one event per call); the real Run goroutine itself is not driven in this check. Nil message/guardian-set pointers are trusted in-process values and not in the alphabet.",
      "explicit-state BFS over adversarial handler-event histories with panic capture and a liveness suffix in every state", "DESIGN.md 5/C13", "E-BFS (proch)")
