# Table of claimed checks; read by mkmanifest.py. One check(...) call per property.
PENDING = {}
NOTES = "All checks are bounded exhaustive explorations of the real Go code built from /repo's working tree (see DESIGN.md). ./vc regenerates the build overlay on every run."
ENGINES = [
    {"name": "ev", "path": "/verif/engine/ev", "serves_properties": ["*"], "kind_free_text": "evidence, violation artefacts, known-findings matching"},
    {"name": "cm", "path": "/verif/engine/cm", "serves_properties": ["C04", "C07", "C15"], "kind_free_text": "contract model: formulas and byte-layout tables extracted from Solidity/Ralph sources at check time"},
]

check("C07", "exploration",
      "Exhaustive over the whole input space n=0..255: node CalculateQuorum, the copy compiled into the explorer backend, and the formulas extracted from Messages.sol and governance.ral are evaluated for every n and compared with floor(2n/3)+1 and the BFT inequalities. The space is finite and fully enumerated, so this decides the property.",
      "Contract formulas are extracted from source text by a recognised-subset parser with uint256 floor-division semantics (no solc / Ralph compiler in the sandbox); leaving the subset is exit 2, not a verdict.",
      "exhaustive enumeration of n=0..255 against Go code and extracted contract formulas", "DESIGN.md 5/C07", "E-ENUM + contract model")

check("C05", "exploration",
      "Bounded exhaustive enumeration against the real vaa.Marshal/Unmarshal: a boundary product of VAA values (all pairs of non-default fields for every signature-count x index-pattern x payload-length combination, payloads up to 64 KiB, 1 MiB thorough) must round-trip field-for-field with the same digest; every byte string of length 0..2 and every structured single edit (prefix, 7 substitutions per offset, deletion, 2 insertions per offset, every signature-count byte, tail extensions) of ~20 valid encodings must either be rejected with (nil, err) or re-encode to exactly itself; inputs are exact-capacity so over-reads panic. No sampling; exploration level because the value/byte spaces are infinite and only the stated boundary families are complete.",
      "Field alphabets are boundary values read off the code; coverage-guided fuzzing (named in the quantifier) is a different family and is replaced by the exhaustive edit sets.",
      "exhaustive boundary-product and single-edit enumeration against the real codec", "DESIGN.md 5/C05", "E-ENUM")
check("C06", "exploration",
      "Bounded exhaustive enumeration against the real VerifySignatures (tree copy and the copy pinned by the explorer backend): 14 guardian-list shapes of length 0..4 including repeated addresses x every signature sequence of length <=2 over (index, signer, 9 corruption kinds), every uncorrupted sequence of length 3 (4 in thorough), every valid subset with every single corruption; for n=19 and 255 runs and spread subsets at quorum-1/quorum/quorum+1/n with every single-step corruption. Oracle: an independent predicate (own body layout, own double keccak, ecrecover).",
      "crypto.Ecrecover is shared by oracle and implementation (trusted primitive). Lists of length 5..18 and 20..254 are not enumerated.",
      "exhaustive enumeration of signature sequences and single-step corruptions vs an independent predicate", "DESIGN.md 5/C06", "E-ENUM")
check("C04", "exploration",
      "Bounded exhaustive enumeration against the real serializer: every body tuple with up to 4 (thorough 5) fields away from default over boundary alphabets (incl. sub-second times, payload shapes p / p||00 / 00||p / 999..65536 bytes) x 5 header variants. Oracles: byte equality with a layout written from the statement, digest = keccak(keccak(body)), independence from header and sub-second part, injectivity by a map over all produced bodies, no aliasing of returned bodies; every Marshal() output is replayed through layout tables extracted at check time from Messages.sol parseVM and governance.ral parseAndVerifyVAA (offsets, widths, body start, hash rule).",
      "Contract sources interpreted through a recognised syntactic subset (no solc/Ralph compiler); leaving the subset is exit 2.",
      "exhaustive boundary-product enumeration + replay through extracted contract layout tables", "DESIGN.md 5/C04", "E-ENUM + contract model")
