#!/opt/veriftools/pyvenv/bin/python
import json, jsonschema, glob, sys
jsonschema.validate(json.load(open('/verif/MANIFEST.json')), json.load(open('/root/.vp/MANIFEST.schema.json')))
s = json.load(open('/root/.vp/EVIDENCE.schema.json'))
for f in sorted(glob.glob('/verif/evidence/C*.json')):
    try:
        jsonschema.validate(json.load(open(f)), s)
    except Exception as e:
        print("INVALID", f, str(e)[:300]); sys.exit(1)
print("manifest and evidence valid")
