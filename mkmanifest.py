#!/usr/bin/env python3
"""Regenerates MANIFEST.json from the per-check table below (CHECKS) and properties.jsonl.
A property without an entry in CHECKS, or whose harness directory does not exist, is listed under
not_applicable with the reason given in PENDING."""
import json, os
ROOT = os.path.dirname(os.path.abspath(__file__))
props = [json.loads(l) for l in open(os.path.join(ROOT, "properties.jsonl"))]

CHECKS = {}
def check(pid, cat, text, note, technique, design_ref, engine):
    CHECKS[pid] = dict(cat=cat, text=text, note=note, technique=technique, design_ref=design_ref, engine=engine)

exec(open(os.path.join(ROOT, "checks_table.py")).read())

checks, na = [], []
for p in props:
    pid = p["id"]
    c = CHECKS.get(pid)
    if c is None or not os.path.exists(os.path.join(ROOT, "harness", pid, "harness.json")):
        na.append({"property_id": pid, "reason": PENDING.get(pid, "check not built yet in this session; design in DESIGN.md section 5")})
        continue
    checks.append({
        "property_id": pid,
        "quick_cmd": "./vc check %s --tier quick" % pid,
        "thorough_cmd": "./vc check %s --tier thorough" % pid,
        "evidence_file": "/verif/evidence/%s.json" % pid,
        "replay_cmd_template": "./vc replay {path}",
        "engine": c["engine"],
        "level_claimed": {"category": c["cat"], "text": c["text"], "design_ref": c["design_ref"]},
        "level_note": c["note"],
        "technique": c["technique"],
    })
m = {
    "version": 1,
    "setup_cmd": "./setup.sh",
    "hooks": {
        "guard": "verif",
        "enable": "go build -tags verif -overlay <generated>: hook files live in /verif/inject and are added to packages of /repo's working tree through the overlay at build time (GODEBUG=goindex=0 for the module-cache quic stub); no hook code is committed in /repo",
        "baseline_off_cmd": "for m in $(cat /w/out/gomods.txt); do MF=$(cd /repo/$m && . /w/out/goenv.sh && gomodflag); (cd /repo/$m && go test $MF -json -vet=off -count=1 -timeout 25m ./...); done",
        "source_commits": [],
        "add_only": True,
    },
    "engines": ENGINES,
    "checks": checks,
    "not_applicable": na,
    "notes": NOTES,
}
json.dump(m, open(os.path.join(ROOT, "MANIFEST.json"), "w"), indent=1)
print("claimed:", [c["property_id"] for c in checks])
print("not_applicable:", [n["property_id"] for n in na])
