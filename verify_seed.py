#!/usr/bin/env python3
"""verify_seed.py <seed dir> <k> <dest id>
Independently confirms one seeded change delivered by a sub-agent, in a scratch worktree of /repo (removed afterwards):
  1. patch applies to /repo HEAD and the touched module builds;
  2. the demonstration FAILS with the patch;
  3. the existing tests of the touched module PASS with the patch (pkg/devnet excluded: fails on the unchanged tree too);
  4. the demonstration PASSES without the patch.
On success files the change under /verif/seeded/<dest id>/ (patch.diff, demo/, meta.json)."""
import json, os, re, shutil, subprocess, sys, glob

seed, k, dest = sys.argv[1], sys.argv[2], sys.argv[3]
WT = "/tmp/wt/verify-%s" % dest
ENV = dict(os.environ, GOFLAGS="-mod=mod", GOPROXY="off", GOSUMDB="off", GOTOOLCHAIN="local", GODEBUG="goindex=0")
OVL = "-overlay /var/tmp/quic-overlay/overlay.json"

def sh(cmd, cwd, timeout=3000):
    p = subprocess.run(cmd, shell=True, cwd=cwd, env=ENV, stdout=subprocess.PIPE, stderr=subprocess.STDOUT, text=True, timeout=timeout)
    return p.returncode, p.stdout

patch = os.path.join(seed, "patch%s.diff" % k)
demo = os.path.join(seed, "demo%s" % k)
meta = json.load(open(os.path.join(seed, "meta%s.json" % k)))
where = open(os.path.join(demo, "WHERE.txt")).read().replace("\\\n", " ").replace("<repo>/", "").replace("<worktree>/", "")
files = [f for f in os.listdir(demo) if f != "WHERE.txt"]
place = {}
for f in files:
    m = re.findall(r'([\w./-]*/' + re.escape(f) + r')', where)
    m = [x for x in m if not x.startswith("demo") and not x.startswith("/tmp")]
    if not m:
        print("cannot find placement for", f); sys.exit(2)
    place[f] = m[0].lstrip("./")
runline = None
for line in where.splitlines():
    if ("go test" in line or "go run" in line) and "export" not in line.split("go ")[0][-8:]:
        runline = re.sub(r'^\s*(Run|Command|run)\s*:\s*', '', line.strip().lstrip("$ ").strip())
        break
if not runline:
    print("cannot find run command"); sys.exit(2)
# make sure the overlay is used where needed
if "-overlay" not in runline:
    runline = runline.replace("go test ", "go test %s " % OVL).replace("go run ", "go run %s " % OVL)
print("placement:", place); print("run:", runline)

subprocess.run("git -C /repo worktree remove --force %s 2>/dev/null; git -C /repo worktree add -q --detach %s HEAD" % (WT, WT), shell=True, check=True)
res = {}
try:
    rc, out = sh("git apply %s" % patch, WT)
    if rc != 0:
        print("PATCH DOES NOT APPLY\n", out); sys.exit(3)
    for f, p in place.items():
        os.makedirs(os.path.dirname(os.path.join(WT, p)), exist_ok=True)
        shutil.copy(os.path.join(demo, f), os.path.join(WT, p))
    rc, out = sh(runline, WT)
    res["demo_with_patch_rc"] = rc
    res["demo_with_patch_tail"] = out[-600:]
    print("demo with patch rc=%d" % rc)
    # existing tests with patch (demo removed)
    for f, p in place.items():
        os.remove(os.path.join(WT, p))
    touched = [l[6:] for l in open(patch) if l.startswith("+++ b/")]
    mods = sorted(set(t.split("/")[0] for t in touched))
    tests_ok = True
    cmds = []
    for m in mods:
        if m == "node":
            cmd = "go test -vet=off -count=1 %s $(go list %s ./pkg/... ./cmd/... | grep -v pkg/devnet)" % (OVL, OVL)
        elif m in ("explorer-backend", "explorer-api-server"):
            cmd = "go test -vet=off -count=1 %s ./..." % OVL
        else:
            continue  # contract sources etc: no Go tests
        cmds.append("cd %s && %s" % (m, cmd))
        rc2, out2 = sh(cmd, os.path.join(WT, m))
        print("existing tests in %s rc=%d" % (m, rc2))
        if rc2 != 0:
            # timing-based tests (TestDisableBlockPoller) flake under load: re-run the failing packages once
            failed = re.findall(r'^FAIL\s+(\S+)', out2, re.M)
            failed = [f for f in failed if '/' in f]
            rc2b = 1
            for attempt in range(4):
                if not failed or rc2b == 0:
                    break
                rc2b, out2b = sh("go test -vet=off -count=1 -p 1 %s %s" % (OVL, " ".join(failed)), os.path.join(WT, m))
                print("re-run %d of %s rc=%d" % (attempt + 1, failed, rc2b))
                cmds.append("re-run after a failure under load: " + " ".join(failed))
            if rc2b != 0:
                tests_ok = False
                print(out2[-3000:])
    res["existing_tests_cmds"] = cmds
    res["existing_tests_pass"] = tests_ok
    sh("git checkout -- .", WT)
    for f, p in place.items():
        shutil.copy(os.path.join(demo, f), os.path.join(WT, p))
    rc3, out3 = sh(runline, WT)
    res["demo_without_patch_rc"] = rc3
    print("demo without patch rc=%d" % rc3)
    if rc3 != 0:
        print(out3[-1500:])
    ok = res["demo_with_patch_rc"] != 0 and tests_ok and rc3 == 0
    print("CONFIRMED" if ok else "NOT CONFIRMED")
    if ok:
        d = "/verif/seeded/%s" % dest
        shutil.rmtree(d, ignore_errors=True)
        os.makedirs(d + "/demo")
        shutil.copy(patch, d + "/patch.diff")
        for f in os.listdir(demo):
            shutil.copy(os.path.join(demo, f), d + "/demo/" + f)
        json.dump({"property": meta.get("property"), "summary": meta.get("summary"), "needs_to_manifest": meta.get("needs_to_manifest"),
                   "files_touched": meta.get("files_touched"), "origin": "independent sub-agent given only the property text and a scratch worktree",
                   "confirmed_by_me": {"base_commit": subprocess.check_output("git -C /repo rev-parse --short HEAD", shell=True, text=True).strip(),
                                       "demo_cmd": runline, "demo_placement": place, **res},
                   "caught_by": "pending"}, open(d + "/meta.json", "w"), indent=1)
    sys.exit(0 if ok else 1)
finally:
    subprocess.run("git -C /repo worktree remove --force %s; git -C /repo worktree prune" % WT, shell=True)
