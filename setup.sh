#!/bin/sh
# Builds every harness once against /repo's working tree to warm the Go build cache. Offline.
cd "$(dirname "$0")"
export GOFLAGS=-mod=mod GOPROXY=off GOSUMDB=off GOTOOLCHAIN=local
rc=0
for d in harness/C*/; do
  id=$(basename "$d")
  ./vc build "$id" || rc=1
done
exit $rc
