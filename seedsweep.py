#!/usr/bin/env python3
"""Applies every kept seeded change (/verif/seeded/<id>/patch.diff) to a scratch worktree of /repo (VERIF_REPO), runs the quick check of the
property it breaks, reverts, and records in meta.json whether and how the check caught it."""
import json, os, subprocess, sys, glob, re
rows = []
only = sys.argv[1:] 
for d in sorted(glob.glob('/verif/seeded/C*')):
    name = os.path.basename(d)
    if only and name not in only:
        continue
    meta = json.load(open(d + '/meta.json'))
    prop = meta.get('property') or name.split('-')[0]
    chk = meta.get('checked_by') or prop   # the check that decides it (a change can break two properties)
    tier = meta.get('tier') or 'quick'
    wt = '/tmp/wt/sweep-%s' % name
    subprocess.run('git -C /repo worktree remove --force %s 2>/dev/null; git -C /repo worktree add -q --detach %s HEAD' % (wt, wt), shell=True, check=True)
    if subprocess.run(['git', '-C', wt, 'apply', d + '/patch.diff']).returncode != 0:
        meta['caught_by'] = 'patch no longer applies to the current tree'
        rows.append((name, prop, 'n/a', ''))
    else:
        p = subprocess.run(['./vc', 'check', chk, '--tier', tier], cwd='/verif', capture_output=True, text=True, env=dict(os.environ, VERIF_REPO=wt))
        keys = sorted(set(re.findall(r'^  key=(.*)$', p.stdout, re.M)))
        caught = p.returncode == 1 and 'VIOLATION property=%s' % chk in p.stdout
        meta['caught_by'] = {'check': './vc check %s --tier %s' % (chk, tier), 'exit_code': p.returncode, 'caught': caught, 'violation_keys': keys[:6]}
        rows.append((name, prop, 'caught' if caught else 'MISSED (exit %d)' % p.returncode, '; '.join(k[:90] for k in keys[:2])))
    subprocess.run('git -C /repo worktree remove --force %s; git -C /repo worktree prune' % wt, shell=True)
    json.dump(meta, open(d + '/meta.json', 'w'), indent=1)
    print(rows[-1], flush=True)
if not os.environ.get('SWEEP_OUT'):
    subprocess.run('git -C /verif checkout -- evidence', shell=True)
json.dump(rows, open(os.environ.get('SWEEP_OUT', '/verif/seeded/SUMMARY.json'), 'w'), indent=1)
