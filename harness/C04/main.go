// C04: the signing digest is a deterministic, injective function of the message body, laid out at
// the offsets Messages.sol parseVM and governance.ral parseAndVerifyVAA read.
// Exhaustive boundary product of VAA bodies x header variants against the real serializer; every
// produced encoding is replayed through the layout tables extracted from the contract sources.
package main

import (
	"bytes"
	"encoding/binary"
	"encoding/hex"
	"fmt"
	"path/filepath"
	"sync"
	"sync/atomic"
	"time"

	"github.com/alephium/wormhole-fork/node/pkg/vaa"
	"github.com/alephium/wormhole-fork/node/verifh/cm"
	"github.com/alephium/wormhole-fork/node/verifh/ev"
	"github.com/alephium/wormhole-fork/node/verifh/vaacoop"
	"github.com/alephium/wormhole-fork/node/verifh/vaahist"
	"github.com/alephium/wormhole-fork/node/verifh/proch"
	"github.com/alephium/wormhole-fork/node/verifh/mc"
	"github.com/ethereum/go-ethereum/crypto"
)

var r *ev.Run

type bodyCase struct {
	TS      int64  `json:"ts"`
	Nanos   int    `json:"nanos"`
	Nonce   uint32 `json:"nonce"`
	EC      uint16 `json:"emitter_chain"`
	TC      uint16 `json:"target_chain"`
	Addr    int    `json:"addr"`
	Seq     uint64 `json:"seq"`
	CL      uint8  `json:"cl"`
	Payload int    `json:"payload_shape"`
}

var payloads [][]byte

func init() {
	p := []byte{0xaa, 0xbb, 0xcc}
	big := func(n int) []byte {
		b := make([]byte, n)
		for i := range b {
			b[i] = byte(i*13 + 1)
		}
		return b
	}
	payloads = [][]byte{{0x01}, {0x00}, {0x01, 0x00}, {0x00, 0x01}, p, append(append([]byte{}, p...), 0), append([]byte{0}, p...),
		big(999), big(1000), big(1001), big(65536)}
}

var addrs = func() [][32]byte {
	var a [4][32]byte
	a[1][31] = 1
	a[2][0] = 1
	for i := range a[3] {
		a[3][i] = 0xff
	}
	return a[:]
}()

func (c bodyCase) vaa() *vaa.VAA {
	return &vaa.VAA{Version: 1, Timestamp: time.Unix(c.TS, int64(c.Nanos)), Nonce: c.Nonce, EmitterChain: vaa.ChainID(c.EC), TargetChain: vaa.ChainID(c.TC),
		EmitterAddress: addrs[c.Addr], Sequence: c.Seq, ConsistencyLevel: c.CL, Payload: payloads[c.Payload]}
}

// ownBody: the layout written from the property statement.
func (c bodyCase) ownBody() []byte {
	b := make([]byte, 53, 53+len(payloads[c.Payload]))
	binary.BigEndian.PutUint32(b[0:], uint32(c.TS)) // whole seconds
	binary.BigEndian.PutUint32(b[4:], c.Nonce)
	binary.BigEndian.PutUint16(b[8:], c.EC)
	binary.BigEndian.PutUint16(b[10:], c.TC)
	copy(b[12:44], addrs[c.Addr][:])
	binary.BigEndian.PutUint64(b[44:], c.Seq)
	b[52] = c.CL
	return append(b, payloads[c.Payload]...)
}

type identity struct { // what distinguishes two messages: all body fields, time in whole seconds
	TS      int64
	Nonce   uint32
	EC, TC  uint16
	Addr    int
	Seq     uint64
	CL      uint8
	Payload int
}

func (c bodyCase) id() identity { return identity{c.TS, c.Nonce, c.EC, c.TC, c.Addr, c.Seq, c.CL, c.Payload} }

type hdr struct {
	Version uint8
	GSI     uint32
	NSig    int
}

func main() {
	r = ev.Start("C04", "exploration")
	sol, err := cm.ExtractSolidityParseVM(filepath.Join(r.Repo, "ethereum/contracts/Messages.sol"))
	if err != nil {
		ev.Broken("Messages.sol parseVM: %v", err)
	}
	ral, err := cm.ExtractRalphParseVAA(filepath.Join(r.Repo, "alephium/contracts/governance.ral"))
	if err != nil {
		ev.Broken("governance.ral parseAndVerifyVAA: %v", err)
	}
	r.Set("solidity_layout", sol)
	r.Set("ralph_layout", ral)
	// expected contract-side field table (from the property statement) -> name aliases in each source
	want := map[string][2]int{"timestamp": {0, 4}, "nonce": {4, 4}, "emitterChainId": {8, 2}, "targetChainId": {10, 2}, "emitterAddress": {12, 32}, "sequence": {44, 8}, "consistencyLevel": {52, 1}, "payload": {53, -1}}
	for _, L := range []*cm.VMLayout{sol, ral} {
		for _, f := range L.Body {
			w, ok := want[f.Name]
			if !ok {
				ev.Broken("%s reads unknown body field %s", L.Source, f.Name)
			}
			if w[0] != f.Off || w[1] != f.Width {
				r.Violation("contract layout: "+filepath.Base(L.Source)+" reads "+f.Name+" at another offset/width than the statement", fmt.Sprintf("%+v want off=%d width=%d", f, w[0], w[1]), f)
			}
		}
		if L.BodyStartVar != L.SigCountVar {
			r.Violation("contract layout: "+filepath.Base(L.Source)+" computes the start of the signed body from another quantity than the number of signatures the VAA carries", fmt.Sprintf("body start = %d + %s * %d, signature count is read into %s: for a VAA with more signatures than that quantity the contract hashes signature bytes", L.BodyStartC, L.BodyStartVar, L.BodyStartPer, L.SigCountVar), L)
		}
		if L.BodyStartC != 6 || L.BodyStartPer != 66 || L.SigStride != 66 || L.SigStart != 6 || !L.DoubleKeccak {
			r.Violation("contract layout: "+filepath.Base(L.Source)+" header/signature geometry or hash rule differs", fmt.Sprintf("%+v", L), L)
		}
	}
	if len(sol.Body) != 8 {
		r.Violation("contract layout: Messages.sol does not read all 8 body fields", fmt.Sprint(len(sol.Body)), sol.Body)
	}

	tss := []int64{0, 1, 65535, 65536, 1<<31 - 1, 1 << 31, 1<<32 - 1}
	nanos := []int{0, 1, 499999999, 500000000, 999999999}
	nonces := []uint32{0, 1, 65536, 1<<32 - 1}
	chains := []uint16{0, 1, 255, 256, 65535}
	seqs := []uint64{0, 1, 1 << 32, 1<<63 - 1, 1<<64 - 1}
	cls := []uint8{0, 1, 128, 255}
	np := len(payloads)
	// product with every PAIR of fields free and the others at default, plus full product over a reduced alphabet in thorough
	type dim struct {
		n   int
		set func(c *bodyCase, i int)
	}
	dims := []dim{
		{len(tss), func(c *bodyCase, i int) { c.TS = tss[i] }},
		{len(nanos), func(c *bodyCase, i int) { c.Nanos = nanos[i] }},
		{len(nonces), func(c *bodyCase, i int) { c.Nonce = nonces[i] }},
		{len(chains), func(c *bodyCase, i int) { c.EC = chains[i] }},
		{len(chains), func(c *bodyCase, i int) { c.TC = chains[i] }},
		{len(addrs), func(c *bodyCase, i int) { c.Addr = i }},
		{len(seqs), func(c *bodyCase, i int) { c.Seq = seqs[i] }},
		{len(cls), func(c *bodyCase, i int) { c.CL = cls[i] }},
		{np, func(c *bodyCase, i int) { c.Payload = i }},
	}
	seen := map[bodyCase]bool{}
	var cases []bodyCase
	add := func(c bodyCase) {
		if !seen[c] {
			seen[c] = true
			cases = append(cases, c)
		}
	}
	k := 4
	if r.Thorough() {
		k = 5
	}
	var rec func(c bodyCase, from, left int)
	rec = func(c bodyCase, from, left int) {
		add(c)
		if left == 0 {
			return
		}
		for d := from; d < len(dims); d++ {
			for i := 1; i < dims[d].n; i++ {
				c2 := c
				dims[d].set(&c2, i)
				rec(c2, d+1, left-1)
			}
		}
	}
	rec(bodyCase{}, 0, k)
	hdrs := []hdr{{1, 0, 0}, {0, 0, 0}, {2, 1, 1}, {1, 1<<32 - 1, 19}, {1, 7, 2}}

	var evals, replays int64
	var mu sync.Mutex
	bodies := map[string]identity{}
	mc.ParallelFor(len(cases), func(i int) {
		c := cases[i]
		defer func() {
			if p := recover(); p != nil {
				r.Violation("panic while serializing", fmt.Sprint(p), c)
			}
		}()
		own := c.ownBody()
		ownD := crypto.Keccak256(crypto.Keccak256(own))
		v := c.vaa()
		got := v.SerializeBody()
		atomic.AddInt64(&evals, 1)
		if !bytes.Equal(got, own) {
			r.Violation("signing body differs from the statement's layout ("+diffField(got, own)+")", hex.EncodeToString(got[:imin(len(got), 60)]), c)
			return
		}
		d := v.SigningMsg()
		if !bytes.Equal(d[:], ownD) {
			r.Violation("digest is not keccak256(keccak256(body))", "", c)
		}
		// aliasing: a body returned earlier must not change when another message is serialized
		other := c
		other.Seq ^= 0xff
		_ = other.vaa().SerializeBody()
		_ = other.vaa().SigningMsg()
		if !bytes.Equal(got, own) {
			r.Violation("a signing body returned earlier changed after another message was serialized", "", c)
		}
		// injectivity
		mu.Lock()
		if prev, ok := bodies[string(got)]; ok && prev != c.id() {
			r.Violation("two messages differing in a body field share a signing body", fmt.Sprintf("%+v vs %+v", prev, c.id()), []interface{}{prev, c})
		}
		bodies[string(got)] = c.id()
		mu.Unlock()
		// header independence + contract replay
		for _, h := range hdrs {
			w := c.vaa()
			w.Version, w.GuardianSetIndex = h.Version, h.GSI
			for s := 0; s < h.NSig; s++ {
				sg := &vaa.Signature{Index: uint8(s)}
				for j := range sg.Signature {
					sg.Signature[j] = byte(s + j)
				}
				w.Signatures = append(w.Signatures, sg)
			}
			dd := w.SigningMsg()
			atomic.AddInt64(&evals, 1)
			if dd != d {
				r.Violation("digest depends on version / guardian-set index / signatures", fmt.Sprintf("%+v", h), []interface{}{c, h})
			}
			enc, err := w.Marshal()
			if err != nil {
				r.Violation("marshal error", err.Error(), c)
				continue
			}
			for _, L := range []*cm.VMLayout{sol, ral} {
				atomic.AddInt64(&replays, 1)
				bs := L.BodyStart(h.NSig)
				if bs > len(enc) {
					r.Violation("contract replay: body start beyond encoding", "", c)
					continue
				}
				hash := crypto.Keccak256(crypto.Keccak256(enc[bs:]))
				if !bytes.Equal(hash, ownD) {
					r.Violation("contract replay: "+filepath.Base(L.Source)+" recomputes a different digest from the serialized VAA", fmt.Sprintf("hdr=%+v", h), []interface{}{c, h})
				}
				for _, f := range L.Body {
					gotF := L.Read(enc, h.NSig, f)
					wantF := own[want[f.Name][0]:]
					if f.Width >= 0 {
						wantF = wantF[:f.Width]
					}
					if !bytes.Equal(gotF, wantF) {
						r.Violation("contract replay: "+filepath.Base(L.Source)+" reads a different "+f.Name, fmt.Sprintf("hdr=%+v", h), []interface{}{c, h})
					}
				}
				// header fields the contract reads
				for _, f := range L.Header {
					if f.Base != "vm" {
						continue
					}
					gotF := L.Read(enc, h.NSig, f)
					var wantF []byte
					switch f.Name {
					case "version":
						wantF = []byte{h.Version}
					case "guardianSetIndex":
						wantF = make([]byte, 4)
						binary.BigEndian.PutUint32(wantF, h.GSI)
					case "signersLen", "signatureSize":
						wantF = []byte{byte(h.NSig)}
					default:
						continue
					}
					if !bytes.Equal(gotF, wantF) {
						r.Violation("contract replay: "+filepath.Base(L.Source)+" reads a different header field "+f.Name, "", []interface{}{c, h})
					}
				}
			}
		}
	})
	for _, i := range []int{0, len(cases) / 3, len(cases) - 1} {
		r.Sample(cases[i])
	}
	signedByNode()
	// concurrent callers of the serializer / digest under every schedule with <= 2 (thorough 3) preemptions
	r.Add("traces_validated_against_impl", vaacoop.Explore(r, r.Pick(2, 3), r.Thorough()))
	// operation histories on one VAA object: the digest is a function of the current field values alone
	r.Add("traces_validated_against_impl", vaahist.Explore(r, "C04", r.Pick(4, 5)))
	r.Set("evaluations", int(evals))
	r.Set("distinct_nontrivial", len(cases)-1)
	r.Set("distinct_bodies", len(bodies))
	r.Set("traces_validated_against_impl", int(replays))
	r.Set("rule", fmt.Sprintf("all body tuples with at most %d fields away from the default (zero) value, each field ranging over its boundary alphabet (9 dimensions incl. sub-second part and 11 payload shapes with p, p||00, 00||p and 999/1000/1001/65536 bytes); each x 5 header variants (version 0/1/2, set index 0/1/2^32-1, 0/1/2/19 signatures); non-trivial = every tuple but the all-default one; distinct_bodies counts distinct serialized bodies (sub-second variants collapse by design)", k))
	r.Assume("timestamps in [0, 2^32) seconds: the wire field is 32 bits")
	r.Assume("contract sources are interpreted through a recognised syntactic subset (straight-line parseVM, fixed byteVecSlice! bounds); no solc / Ralph compiler in the sandbox")
	r.Finish()
}

// signedByNode: what the real processor SIGNS for a local observation is the double keccak of that
// observation's own body - whatever the node already holds for the same message id. For every way the store
// can come to hold a VAA of id I (own quorum / VAA received from a peer / nothing) and every timestamp
// distance of a second observation of id I, the digest in the node's SignedObservation is compared with the
// independent body layout, and all (digest, body) pairs the node ever signed are checked for injectivity.
func signedByNode() {
	var e vaa.Address
	e[31] = 0x77
	offs := []int64{0, -3600, -31, -30, -12, -1, 1, 12, 29, 30, 31, 60, 3600}
	var msgs []proch.Msg
	for _, o := range offs {
		msgs = append(msgs, proch.Msg{Seq: 5, TSOff: o, Payload: []byte{1, 2, 3}, Emitter: e, Chain: 2, Target: 255, CL: 1, Nonce: 9})
	}
	msgs = append(msgs, proch.Msg{Seq: 5, TSOff: 12, Payload: []byte{1, 2, 4}, Emitter: e, Chain: 2, Target: 255, CL: 1, Nonce: 9}) // same id, other payload
	// block times with a sub-second part (the Alephium watcher reports milliseconds): the VAA's timestamp is the
	// whole second, truncated - observations at .400 and .600 of one second are one message, one digest
	for _, ms := range []int{1, 400, 499, 500, 501, 600, 999} {
		msgs = append(msgs, proch.Msg{Seq: 5, TSOff: 0, TSMs: ms, Payload: []byte{1, 2, 3}, Emitter: e, Chain: 2, Target: 255, CL: 1, Nonce: 9})
	}
	// timestamps with a meaning of their own: the zero time.Time (its Unix() is negative: the body carries the low
	// 32 bits), Unix 0, the last 32-bit second - the digest is a function of the message, never of the node's clock
	for _, k := range []string{"zero", "epoch", "2106"} {
		msgs = append(msgs, proch.Msg{Seq: 6, TSKind: k, Payload: []byte{1, 2, 3}, Emitter: e, Chain: 2, Target: 255, CL: 1, Nonce: 9})
	}
	w := proch.NewWorld()
	c := proch.Config{Name: "digest-of-own-observation", Sets: [][]int{{0}, {0, 1, 2}}, OwnKey: 0, Msgs: msgs}
	x := &proch.Explorer{R: r, W: w, C: &c, Oracles: map[string]bool{}}
	prefixes := map[string][]proch.Event{
		"empty store":                         {{Kind: "set", Set: 0}},
		"own quorum stored the first VAA":     {{Kind: "set", Set: 0}, {Kind: "msg", M: 0}, {Kind: "lb", LB: 0}},
		"first VAA received from a peer":      {{Kind: "set", Set: 0}, {Kind: "in", M: 0, InVar: 0, InSet: 0}},
		"first observation still aggregating": {{Kind: "set", Set: 1}, {Kind: "msg", M: 0}, {Kind: "lb", LB: 0}},
	}
	signed := map[string]string{} // digest -> body
	n := 0
	for name, pre := range prefixes {
		for k := range msgs {
			for _, twice := range []bool{false, true} {
				n++
				in := x.Run(pre)
				hist := append(append([]proch.Event{}, pre...), proch.Event{Kind: "msg", M: k})
				if twice {
					hist = append(hist, proch.Event{Kind: "msg", M: k})
				}
				var out proch.Out
				for _, e := range hist[len(pre):] {
					out = x.StepUnchecked(in, e)
				}
				rec := map[string]interface{}{"store": name, "events": fmt.Sprint(hist), "second_observation_ts_offset": msgs[k].TSOff}
				if out.Panic != nil {
					r.Violation("node: processor panics on a second observation of a known id", fmt.Sprint(out.Panic), rec)
				}
				for _, o := range out.Obs {
					body := msgs[k].OwnBody()
					if !bytes.Equal(o.Hash, msgs[k].OwnDigest()) {
						r.Violation("node: the digest the processor signs is not the double keccak of the observation's own body", fmt.Sprintf("store: %s; second observation %+ds", name, msgs[k].TSOff), rec)
					}
					if prev, ok := signed[string(o.Hash)]; ok && prev != string(body) {
						r.Violation("node: two distinct message bodies were signed under one digest", name, rec)
					}
					signed[string(o.Hash)] = string(body)
				}
				in.Close()
			}
		}
	}
	r.Set("node_signing_scenarios", n)
	r.Set("node_signed_digests", len(signed))
	r.Add("traces_validated_against_impl", n)
}

func diffField(got, own []byte) string {
	names := []struct {
		n    string
		a, b int
	}{{"timestamp", 0, 4}, {"nonce", 4, 8}, {"emitter_chain", 8, 10}, {"target_chain", 10, 12}, {"emitter_address", 12, 44}, {"sequence", 44, 52}, {"consistency_level", 52, 53}}
	if len(got) != len(own) {
		return "length"
	}
	for _, f := range names {
		if f.b <= len(got) && !bytes.Equal(got[f.a:f.b], own[f.a:f.b]) {
			return f.n
		}
	}
	return "payload"
}

func imin(a, b int) int {
	if a < b {
		return a
	}
	return b
}
