// C15: governance requests become exactly the VAA the contracts parse, or are rejected.
// Exhaustive boundary product of the nine governance request kinds against the real
// InjectGovernanceVAA (real request-conversion functions and payload serializers); every produced
// payload is compared with a reference encoder written from the statement and replayed through the
// parser tables extracted from governance.ral / token_bridge_governance.ral.
package main

import (
	"bytes"
	"context"
	"encoding/binary"
	"encoding/hex"
	"fmt"
	"path/filepath"
	"strings"
	"sync"
	"sync/atomic"
	"time"

	"github.com/alephium/wormhole-fork/node/cmd/guardiand"
	nodev1 "github.com/alephium/wormhole-fork/node/pkg/proto/node/v1"
	"github.com/alephium/wormhole-fork/node/pkg/vaa"
	"github.com/alephium/wormhole-fork/node/verifh/cm"
	"github.com/alephium/wormhole-fork/node/verifh/ev"
	"github.com/alephium/wormhole-fork/node/verifh/keys"
	"github.com/alephium/wormhole-fork/node/verifh/mc"
)

var r *ev.Run

var (
	govChain = vaa.ChainID(1)
	govAddr  = func() (a vaa.Address) { a[31] = 4; return }()
)

// gcase is one governance message plus what the reference says about it.
type gcase struct {
	Kind    string `json:"kind"`
	Desc    string `json:"desc"`
	msg     *nodev1.GovernanceMessage
	reject  bool   // some requested value cannot be represented: must be rejected
	either  bool   // semantic edge the property does not decide (e.g. empty list): reject or exact payload
	payload []byte // reference payload when representable
	control bool   // plain valid request: must be accepted (positive control)
	ralph   string // contract entry point that parses it ("" none)
	checkRalph func(res cm.RalphResult) string
}

func leftPad32(s string) []byte {
	b := make([]byte, 32)
	copy(b[32-len(s):], s)
	return b
}

func be16(v uint32) []byte { return []byte{byte(v >> 8), byte(v)} }

func hexOf(n int, seed byte) string {
	b := make([]byte, n)
	for i := range b {
		b[i] = seed + byte(i)
	}
	return hex.EncodeToString(b)
}

type hexAlt struct {
	s     string
	bytes []byte
	ok    bool // decodes as hex
}

func hexAlts(lens []int, seed byte) []hexAlt {
	var out []hexAlt
	for _, n := range lens {
		h := hexOf(n, seed)
		b, _ := hex.DecodeString(h)
		out = append(out, hexAlt{h, b, true})
	}
	out = append(out, hexAlt{hexOf(32, seed)[:63], nil, false}, hexAlt{"zz" + hexOf(31, seed), nil, false}, hexAlt{"0x" + hexOf(31, seed), nil, false})
	return out
}

var coreModule = leftPad32("Core")

func cases(r *ev.Run) []gcase {
	var out []gcase
	// ---- core: update message fee (payload: module, 03, 32-byte fee; size 65)
	for _, h := range hexAlts([]int{0, 31, 32, 33}, 0x10) {
		c := gcase{Kind: "UpdateMessageFee", Desc: fmt.Sprintf("fee of %d hex chars", len(h.s)), ralph: "submitSetMessageFee",
			msg: &nodev1.GovernanceMessage{Payload: &nodev1.GovernanceMessage_UpdateMessageFee{UpdateMessageFee: &nodev1.UpdateMessageFee{NewMessageFee: h.s}}}}
		if !h.ok || len(h.bytes) != 32 {
			c.reject = true
		} else {
			c.payload = append(append(append([]byte{}, coreModule...), 3), h.bytes...)
			c.control = true
			fee := h.bytes
			c.checkRalph = func(res cm.RalphResult) string {
				if !bytes.Equal(res.Bytes["fee"], fee) {
					return "fee"
				}
				return ""
			}
		}
		out = append(out, c)
	}
	// ---- core: transfer fee (amount 33..65, recipient 65..97, size 97)
	for _, a := range hexAlts([]int{0, 31, 32, 33}, 0x20) {
		for _, rc := range hexAlts([]int{0, 20, 32, 33}, 0x30) {
			c := gcase{Kind: "TransferFee", Desc: fmt.Sprintf("amount %d / recipient %d hex chars", len(a.s), len(rc.s)), ralph: "submitTransferFees",
				msg: &nodev1.GovernanceMessage{Payload: &nodev1.GovernanceMessage_TransferFee{TransferFee: &nodev1.TransferFee{Amount: a.s, Recipient: rc.s}}}}
			if !a.ok || !rc.ok || len(a.bytes) != 32 || len(rc.bytes) != 32 {
				c.reject = true
			} else {
				c.payload = append(append(append(append([]byte{}, coreModule...), 4), a.bytes...), rc.bytes...)
				c.control = true
				am, re := a.bytes, rc.bytes
				c.checkRalph = func(res cm.RalphResult) string {
					if !bytes.Equal(res.Bytes["amount"], am) {
						return "amount"
					}
					if !bytes.Equal(res.Bytes["recipient"], re) {
						return "recipient"
					}
					return ""
				}
			}
			out = append(out, c)
		}
	}
	// ---- core: contract upgrade (free-form payload)
	for _, h := range hexAlts([]int{0, 1, 100, 70000}, 0x40) {
		c := gcase{Kind: "ContractUpgrade", Desc: fmt.Sprintf("payload of %d hex chars", len(h.s)),
			msg: &nodev1.GovernanceMessage{Payload: &nodev1.GovernanceMessage_ContractUpgrade{ContractUpgrade: &nodev1.ContractUpgrade{Payload: h.s}}}}
		if !h.ok {
			c.reject = true
		} else {
			c.payload = append(append(append([]byte{}, coreModule...), 1), h.bytes...)
			c.control = len(h.bytes) == 100
			c.either = len(h.bytes) == 0
		}
		out = append(out, c)
	}
	// ---- core: guardian set upgrade (index 33..37, count 37..38, keys; size 38+20n) - set index comes from the request envelope
	for _, n := range []int{0, 1, 2, 19, 20, 255, 256} {
		var gs []*nodev1.GuardianSetUpgrade_Guardian
		var keysB []byte
		for i := 0; i < n; i++ {
			a := keys.Addr(i % 300)
			if i >= 300 {
				a[0] ^= 0xff
			}
			gs = append(gs, &nodev1.GuardianSetUpgrade_Guardian{Pubkey: a.Hex(), Name: fmt.Sprint(i)})
			keysB = append(keysB, a[:]...)
		}
		c := gcase{Kind: "GuardianSet", Desc: fmt.Sprintf("%d guardians", n), ralph: "submitNewGuardianSet",
			msg: &nodev1.GovernanceMessage{Payload: &nodev1.GovernanceMessage_GuardianSet{GuardianSet: &nodev1.GuardianSetUpgrade{Guardians: gs}}}}
		switch {
		case n == 0 || n > 255:
			c.reject = true
		case n > 19:
			c.either = true // representable in the payload but beyond the node's own guardian limit
			fallthrough
		default:
			c.payload = append(append(append([]byte{}, coreModule...), 2), 0xEE, 0xEE, 0xEE, 0xEE, byte(n)) // index patched per envelope
			c.payload = append(c.payload, keysB...)
			c.control = n == 19 || n == 1
			nn, kb := n, keysB
			c.checkRalph = func(res cm.RalphResult) string {
				if res.Ints["newGuardianSetSize"] != int64(nn) {
					return "newGuardianSetSize"
				}
				if !bytes.Equal(res.Bytes["assigned_slice"], append([]byte{byte(nn)}, kb...)) {
					return "guardian keys"
				}
				return ""
			}
		}
		out = append(out, c)
	}
	dup := &nodev1.GovernanceMessage{Payload: &nodev1.GovernanceMessage_GuardianSet{GuardianSet: &nodev1.GuardianSetUpgrade{Guardians: []*nodev1.GuardianSetUpgrade_Guardian{
		{Pubkey: keys.Addr(1).Hex()}, {Pubkey: keys.Addr(2).Hex()}, {Pubkey: keys.Addr(1).Hex()}}}}}
	out = append(out, gcase{Kind: "GuardianSet", Desc: "duplicate guardian", msg: dup, reject: true})
	bad := &nodev1.GovernanceMessage{Payload: &nodev1.GovernanceMessage_GuardianSet{GuardianSet: &nodev1.GuardianSetUpgrade{Guardians: []*nodev1.GuardianSetUpgrade_Guardian{{Pubkey: "0x1234"}}}}}
	out = append(out, gcase{Kind: "GuardianSet", Desc: "pubkey that is not an address", msg: bad, reject: true})
	// ---- token bridge: register chain (chain 33..35, emitter 35..67, size 67)
	modules := []string{"TokenBridge", "", "Core", strings.Repeat("M", 32), strings.Repeat("M", 33), strings.Repeat("M", 1024),
		// names whose length in CHARACTERS and in BYTES fall on different sides of 32 (multi-byte UTF-8), and invalid UTF-8
		strings.Repeat("é", 16), strings.Repeat("é", 17), "TokenBridge" + strings.Repeat("é", 10), "TokenBridge" + strings.Repeat("é", 11), strings.Repeat("橋", 10) + "ab", strings.Repeat("橋", 11), strings.Repeat("\xff", 32), strings.Repeat("\xff", 33)}
	for _, mod := range modules {
		for _, ch := range []uint32{0, 2, 65535, 65536, 65538, 1<<32 - 1} {
			for _, e := range hexAlts([]int{0, 31, 32, 33}, 0x50) {
				c := gcase{Kind: "BridgeRegisterChain", Desc: fmt.Sprintf("module %d bytes, chain %d, emitter %d hex chars", len(mod), ch, len(e.s)), ralph: "parseAndVerifyRegisterChain",
					msg: &nodev1.GovernanceMessage{Payload: &nodev1.GovernanceMessage_BridgeRegisterChain{BridgeRegisterChain: &nodev1.BridgeRegisterChain{Module: mod, ChainId: ch, EmitterAddress: e.s}}}}
				if len(mod) > 32 || ch > 65535 || !e.ok || len(e.bytes) != 32 {
					c.reject = true
				} else {
					c.payload = append(append(append(append([]byte{}, leftPad32(mod)...), 1), be16(ch)...), e.bytes...)
					c.control = mod == "TokenBridge" && ch == 2
					cc, eb := ch, e.bytes
					c.checkRalph = func(res cm.RalphResult) string {
						if res.Ints["remoteChainId"] != int64(cc) {
							return "remoteChainId"
						}
						if !bytes.Equal(res.Bytes["remoteTokenBridgeId"], eb) {
							return "remoteTokenBridgeId"
						}
						return ""
					}
				}
				out = append(out, c)
			}
		}
	}
	// ---- token bridge: upgrade contract
	for _, mod := range modules {
		for _, h := range hexAlts([]int{0, 100}, 0x60) {
			c := gcase{Kind: "BridgeUpgradeContract", Desc: fmt.Sprintf("module %d bytes, payload %d hex chars", len(mod), len(h.s)),
				msg: &nodev1.GovernanceMessage{Payload: &nodev1.GovernanceMessage_BridgeContractUpgrade{BridgeContractUpgrade: &nodev1.BridgeUpgradeContract{Module: mod, Payload: h.s}}}}
			if len(mod) > 32 || !h.ok {
				c.reject = true
			} else {
				c.payload = append(append(append([]byte{}, leftPad32(mod)...), 2), h.bytes...)
				c.control = mod == "TokenBridge" && len(h.bytes) == 100
				c.either = len(h.bytes) == 0
			}
			out = append(out, c)
		}
	}
	tbModule := leftPad32("TokenBridge")
	// ---- token bridge: destroy unexecuted sequence contracts (chain 33..35, length 35..37, size 37+8n)
	for _, ch := range []uint32{0, 2, 65535, 65536, 65538, 1<<32 - 1} {
		for _, n := range []int{0, 1, 2, 65535, 65536, 65537} {
			seqs := make([]uint64, n)
			var sb []byte
			for i := range seqs {
				seqs[i] = uint64(i)*0x0101010101 + 1<<63
				sb = binary.BigEndian.AppendUint64(sb, seqs[i])
			}
			c := gcase{Kind: "DestroyUnexecutedSequenceContracts", Desc: fmt.Sprintf("emitter chain %d, %d sequences", ch, n), ralph: "destroyUnexecutedSequenceContracts",
				msg: &nodev1.GovernanceMessage{Payload: &nodev1.GovernanceMessage_DestroyUnexecutedSequenceContracts{DestroyUnexecutedSequenceContracts: &nodev1.TokenBridgeDestroyUnexecutedSequenceContracts{EmitterChain: ch, Sequences: seqs}}}}
			if ch > 65535 || n > 65535 {
				c.reject = true
			} else {
				c.payload = append(append(append(append(append([]byte{}, tbModule...), 0xf0), be16(ch)...), be16(uint32(n))...), sb...)
				c.control = ch == 2 && n == 2
				c.either = n == 0
				cc, nn, ss := ch, n, sb
				c.checkRalph = func(res cm.RalphResult) string {
					if !bytes.Equal(res.Bytes["remoteChainIdBytes"], be16(cc)) {
						return "remoteChainIdBytes"
					}
					if res.Ints["length"] != int64(nn) {
						return "length"
					}
					if !bytes.Equal(res.Bytes["paths"], ss) {
						return "paths"
					}
					return ""
				}
			}
			out = append(out, c)
		}
	}
	// ---- token bridge: minimal consistency level (size 34, level 33..34)
	for _, cl := range []uint32{0, 1, 255, 256, 257, 65536, 1<<32 - 1} {
		c := gcase{Kind: "UpdateMinimalConsistencyLevel", Desc: fmt.Sprintf("level %d", cl), ralph: "updateMinimalConsistencyLevel",
			msg: &nodev1.GovernanceMessage{Payload: &nodev1.GovernanceMessage_UpdateMinimalConsistencyLevel{UpdateMinimalConsistencyLevel: &nodev1.TokenBridgeUpdateMinimalConsistencyLevel{NewConsistencyLevel: cl}}}}
		if cl > 255 {
			c.reject = true
		} else {
			c.payload = append(append(append([]byte{}, tbModule...), 0xf1), byte(cl))
			c.control = cl == 1
			v := cl
			c.checkRalph = func(res cm.RalphResult) string {
				if res.Ints["consistencyLevel"] != int64(v) {
					return "consistencyLevel"
				}
				return ""
			}
		}
		out = append(out, c)
	}
	// ---- token bridge: refund address (size 33..35, address 35..35+size)
	for _, h := range hexAlts([]int{0, 1, 32, 33, 65535, 65536, 65537}, 0x70) {
		c := gcase{Kind: "UpdateRefundAddress", Desc: fmt.Sprintf("address of %d hex chars", len(h.s)), ralph: "updateRefundAddress",
			msg: &nodev1.GovernanceMessage{Payload: &nodev1.GovernanceMessage_UpdateRefundAddress{UpdateRefundAddress: &nodev1.TokenBridgeUpdateRefundAddress{NewRefundAddress: h.s}}}}
		if !h.ok || len(h.bytes) > 65535 {
			c.reject = true
		} else {
			c.payload = append(append(append(append([]byte{}, tbModule...), 0xf2), be16(uint32(len(h.bytes)))...), h.bytes...)
			c.control = len(h.bytes) == 33
			c.either = len(h.bytes) == 0
			hb := h.bytes
			c.checkRalph = func(res cm.RalphResult) string {
				if res.Ints["addressSize"] != int64(len(hb)) {
					return "addressSize"
				}
				return ""
			}
		}
		out = append(out, c)
	}
	return out
}

type envelope struct {
	Target   uint32 `json:"target_chain"`
	Nonce    uint32 `json:"nonce"`
	Sequence uint64 `json:"sequence"`
	TS       uint32 `json:"timestamp"`
	SetIdx   uint32 `json:"current_set_index"`
}

var evals, replays int64

type caseRec struct {
	Kind, Desc string
	Env        envelope
	Second     string `json:"second_message_in_same_request,omitempty"`
}

func main() {
	r = ev.Start("C15", "exploration")
	gov := filepath.Join(r.Repo, "alephium/contracts/governance.ral")
	tb := filepath.Join(r.Repo, "alephium/contracts/token_bridge/token_bridge_governance.ral")
	actions := map[string]*cm.RalphAction{}
	for fn, file := range map[string]string{"submitNewGuardianSet": gov, "submitSetMessageFee": gov, "submitTransferFees": gov,
		"parseAndVerifyRegisterChain": tb, "destroyUnexecutedSequenceContracts": tb, "updateMinimalConsistencyLevel": tb, "updateRefundAddress": tb} {
		a, err := cm.ExtractRalphAction(file, fn)
		if err != nil {
			ev.Broken("%v", err)
		}
		actions[fn] = a
	}
	r.Set("ralph_parsers", actions)
	govIds, err := cm.RalphActionIds(gov)
	if err != nil {
		ev.Broken("%v", err)
	}
	tbIds, err := cm.RalphActionIds(tb)
	if err != nil {
		ev.Broken("%v", err)
	}
	coreConst, err1 := cm.RalphHexConst(gov, "CoreModule")
	tbConst, err2 := cm.RalphHexConst(tb, "TokenBridgeModule")
	if err1 != nil || err2 != nil {
		ev.Broken("%v %v", err1, err2)
	}
	moduleOf := func(a *cm.RalphAction) ([]byte, byte) {
		if a.Source == gov {
			return leftPadB(coreConst), govIds[a.Action]
		}
		return leftPadB(tbConst), tbIds[a.Action]
	}

	cs := cases(r)
	envs := []envelope{{2, 7, 9, 1700000000, 3}, {0, 0, 0, 0, 0}, {65535, 1<<32 - 1, 1<<64 - 1, 1<<32 - 1, 1<<32 - 2}, {65536, 1, 1, 1, 1}, {1<<32 - 1, 1, 1, 1, 1}, {255, 1, 1, 1, 1<<32 - 1}}
	type job struct {
		c   gcase
		env envelope
		two int // -1: single message; otherwise index of a control case of the same kind sent in the same request
	}
	var jobs []job
	controls := map[string][]int{}
	for i, c := range cs {
		if c.control {
			controls[c.Kind] = append(controls[c.Kind], i)
		}
	}
	for _, c := range cs {
		for ei, e := range envs {
			if ei > 0 && !c.control {
				continue // envelope boundaries are explored on the plain valid requests
			}
			jobs = append(jobs, job{c, e, -1})
		}
		// the same request also carries a second message of the same kind (before and after): earlier VAAs must stay intact
		for _, ci := range controls[c.Kind] {
			jobs = append(jobs, job{c, envs[0], ci}, job{c, envs[0], -2 - ci})
		}
	}
	var mu sync.Mutex
	kindsSeen := map[string]int{}
	mc.ParallelFor(len(jobs), func(ji int) {
		j := jobs[ji]
		c := j.c
		rec := caseRec{Kind: c.Kind, Desc: c.Desc, Env: j.env}
		atomic.AddInt64(&evals, 1)
		build := func(c gcase, seqOff uint64) *nodev1.GovernanceMessage {
			m := *c.msg // shallow copy of the envelope fields; payload shared (read-only)
			return &nodev1.GovernanceMessage{Sequence: j.env.Sequence + seqOff, Nonce: j.env.Nonce, TargetChainId: j.env.Target, Payload: m.Payload}
		}
		msgsIn := []*nodev1.GovernanceMessage{build(c, 0)}
		exp := []gcase{c}
		if j.two >= 0 {
			rec.Second = "after: " + cs[j.two].Desc
			msgsIn = append(msgsIn, build(cs[j.two], 1))
			exp = append(exp, cs[j.two])
		} else if j.two <= -2 {
			k := -2 - j.two
			rec.Second = "before: " + cs[k].Desc
			msgsIn = append([]*nodev1.GovernanceMessage{build(cs[k], 1)}, msgsIn...)
			exp = append([]gcase{cs[k]}, exp...)
		}
		req := &nodev1.InjectGovernanceVAARequest{CurrentSetIndex: j.env.SetIdx, Timestamp: j.env.TS, Messages: msgsIn}
		run := func() (digests [][]byte, vaas []*vaa.VAA, err error, pan interface{}) {
			injectC := make(chan *vaa.VAA, 4)
			svc := guardiand.VerifNewPrivilegedService(nil, injectC, nil, nil, govChain, govAddr)
			func() {
				defer func() { pan = recover() }()
				var resp *nodev1.InjectGovernanceVAAResponse
				resp, err = svc.InjectGovernanceVAA(context.Background(), req)
				if resp != nil {
					digests = resp.Digests
				}
			}()
			for len(injectC) > 0 {
				vaas = append(vaas, <-injectC)
			}
			return
		}
		digests, vaas, err, pan := run()
		if pan != nil {
			r.Violation("governance request crashes the node ("+c.Kind+")", fmt.Sprint(pan), rec)
			return
		}
		envReject := j.env.Target > 65535 || j.env.SetIdx == 1<<32-1 && c.Kind == "GuardianSet"
		anyReject := envReject
		for _, e := range exp {
			anyReject = anyReject || e.reject
		}
		if err != nil {
			if c.control && !anyReject && j.two == -1 {
				r.Violation("positive control: a plain valid "+c.Kind+" request is rejected", err.Error(), rec)
			}
			return // rejection is always allowed by the statement
		}
		if len(vaas) != len(exp) || len(digests) != len(exp) {
			r.Violation("request accepted but the number of injected VAAs / digests differs from the number of messages", "", rec)
			return
		}
		mu.Lock()
		kindsSeen[c.Kind]++
		mu.Unlock()
		for i, e := range exp {
			v := vaas[i]
			what := e.Kind + ": " 
			if e.reject || envReject {
				r.Violation(what+"a request whose values do not fit the wire format was accepted (truncated or wrapped) instead of rejected", e.Desc+fmt.Sprintf(" env=%+v payload=%d bytes", j.env, len(v.Payload)), rec)
				continue
			}
			want := append([]byte{}, e.payload...)
			if e.Kind == "GuardianSet" {
				binary.BigEndian.PutUint32(want[33:37], j.env.SetIdx+1)
			}
			if !bytes.Equal(v.Payload, want) {
				r.Violation(what+"payload differs from module || action || fields at the contract's offsets", fmt.Sprintf("%s: got %d bytes %x.., want %d bytes %x..", e.Desc, len(v.Payload), head(v.Payload), len(want), head(want)), rec)
			}
			seqWant := j.env.Sequence
			if (j.two >= 0 && i == 1) || (j.two <= -2 && i == 0) {
				seqWant++
			}
			if v.EmitterChain != govChain || v.EmitterAddress != govAddr || v.ConsistencyLevel != 32 || uint32(v.TargetChain) != j.env.Target || v.Nonce != j.env.Nonce ||
				v.Sequence != seqWant || v.Timestamp.Unix() != int64(j.env.TS) || v.GuardianSetIndex != j.env.SetIdx || v.Version != 1 || len(v.Signatures) != 0 {
				r.Violation(what+"VAA envelope differs from the request (governance emitter, consistency 32, target chain, nonce, sequence, timestamp, set index)", fmt.Sprintf("%+v", v), rec)
			}
			d := v.SigningMsg()
			if !bytes.Equal(d[:], digests[i]) {
				r.Violation(what+"returned digest is not the digest of the injected VAA", "", rec)
			}
			// replay through the Ralph parser
			if e.ralph != "" && bytes.Equal(v.Payload, want) {
				a := actions[e.ralph]
				atomic.AddInt64(&replays, 1)
				res := a.Eval(v.Payload)
				mod, act := moduleOf(a)
				switch {
				case res.Err != "":
					r.Violation(what+"contract parser cannot read the payload: "+res.Err, e.Desc, rec)
				case !res.SizeOK && !e.either:
					r.Violation(what+"contract's exact-size assertion fails on the produced payload", e.Desc, rec)
				case v.Payload[32] != act:
					r.Violation(what+"action byte differs from the contract's ActionId", fmt.Sprintf("%#x vs %#x", v.Payload[32], act), rec)
				case e.control && !bytes.Equal(v.Payload[:32], mod):
					r.Violation(what+"module bytes differ from the contract's module constant", "", rec)
				case e.checkRalph != nil:
					if f := e.checkRalph(res); f != "" {
						r.Violation(what+"contract reads another value for "+f+" than was requested", e.Desc, rec)
					}
				}
			}
		}
		// purity: a second service instance and a second call give the same digests
		d2, _, err2, pan2 := run()
		if pan2 != nil || err2 != nil || len(d2) != len(digests) {
			r.Violation("construction is not a pure function of the request (second call differs)", fmt.Sprint(err2, pan2), rec)
			return
		}
		for i := range d2 {
			if !bytes.Equal(d2[i], digests[i]) {
				r.Violation("construction is not a pure function of the request (digest differs between two operators)", "", rec)
			}
		}
	})
	for k, n := range kindsSeen {
		r.Set("accepted_"+k, n)
	}
	if len(kindsSeen) != 9 {
		r.Violation("positive control: not every one of the nine governance kinds produced at least one VAA", fmt.Sprint(kindsSeen), nil)
	}
	r.Set("evaluations", int(evals))
	r.Set("distinct_nontrivial", len(jobs))
	r.Set("traces_validated_against_impl", int(replays))
	r.Sample(caseRec{Kind: cs[0].Kind, Desc: cs[0].Desc, Env: envs[0]})
	r.Sample(caseRec{Kind: "DestroyUnexecutedSequenceContracts", Desc: "emitter chain 65538, 65536 sequences", Env: envs[0]})
	r.Sample(caseRec{Kind: "BridgeRegisterChain", Desc: "module 33 bytes, chain 2, emitter 64 hex chars", Env: envs[2]})
	r.Set("rule", "per kind the full product of the field alphabets (hex fields: 0/31/32/33-byte, odd-length, non-hex, 0x-prefixed; chain ids 0,2,65535,65536,65538,2^32-1; consistency 0,1,255,256,257,65536,2^32-1; list / address lengths 0,1,2,65535,65536,65537; modules '', Core, TokenBridge, 32, 33, 1024 bytes, multi-byte names of 32 / 33 / 34 bytes in 16 / 17 / 22 / 12 / 11 characters, 32 and 33 invalid-UTF-8 bytes; guardians 0,1,2,19,20,255,256, duplicate, bad hex); 6 request envelopes (target chain, nonce, sequence, timestamp, set index at their boundaries) on the plain valid requests; every case also inside a two-message request before and after a plain valid message of the same kind. Distinct by construction; all non-trivial.")
	r.Assume("semantic contract assertions (length > 0, remoteChainId != localChainId, isAssetAddress, guardian count above the node's own limit) are outside the property: rejection or the exact payload are both accepted there")
	r.Assume("ContractUpgrade / BridgeUpgradeContract payloads are free-form for the node; only module, action and byte-exact embedding are judged")
	_ = time.Second
	r.Finish()
}

func leftPadB(b []byte) []byte {
	out := make([]byte, 32)
	copy(out[32-len(b):], b)
	return out
}

func head(b []byte) []byte {
	if len(b) > 40 {
		return b[:40]
	}
	return b
}
