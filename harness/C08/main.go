// C08: Alephium messages reach the signer only when final and from the token bridge.
// Deviation-bounded exhaustive exploration of the real Alephium watcher (NewAlephiumWatcher(...).Run
// under a real supervisor, real client + SDK) against a simulated node that owns every answer:
// around each base scenario (emit, fetch, confirm, forward, re-observe - for every event kind x
// consistency level class x network) every history obtained by <= 1 (thorough 2) edits (insert any
// stimulus / chain mutation / API fault at any position, swap two adjacent steps, drop one) is run,
// plus the full enumeration of short stimulus sequences over a reduced alphabet. Every message that
// appears on the watcher's output channel is judged against the simulated chain's ground truth at
// that very step.
package main

import (
	"encoding/json"
	"fmt"
	"regexp"
	"path/filepath"
	"os"
	"strings"
	"time"

	"github.com/alephium/wormhole-fork/node/verifh/alphh"
	"github.com/alephium/wormhole-fork/node/verifh/ev"
	"github.com/alephium/wormhole-fork/node/verifh/wiring"
)

var r *ev.Run

type scenario struct {
	Name    string       `json:"name"`
	Mainnet bool         `json:"mainnet"`
	PageSize int         `json:"page_size,omitempty"` // events per page of the node's event log (0 = 100)
	Tokens  map[string]alphh.TokenAnswer `json:"tokens,omitempty"`
	Steps   []alphh.Step `json:"steps"`
}

const tokenID = "4444444444444444444444444444444444444444444444444444444444444400"

func mkMsg(kind string, cl int) alphh.Msg {
	m := alphh.Msg{Tag: kind, Sender: alphh.BridgeID, Contract: alphh.GovID, Target: "2", Seq: "5", Nonce: "00000001", Payload: alphh.TransferPayload(7), CL: fmt.Sprint(cl), Tx: alphh.TxID(1)}
	switch kind {
	case "attest-matching":
		m.Payload, m.Target = alphh.AttestPayload(tokenID, 8, "SYM", "Token name"), "0"
	case "attest-mismatching":
		m.Payload, m.Target = alphh.AttestPayload(tokenID, 9, "SYM", "Token name"), "0"
	case "attest-symbol-interior-nul": // the contract's symbol with a zero byte in the middle: another text
		m.Payload, m.Target = alphh.AttestPayload(tokenID, 8, "SY\x00M", "Token name"), "0"
	case "attest-name-interior-nul":
		m.Payload, m.Target = alphh.AttestPayload(tokenID, 8, "SYM", "Token\x00 name"), "0"
	case "foreign-sender":
		m.Sender = alphh.OtherID
	case "lookalike-other-contract":
		m.Contract = alphh.OtherID // same fields, sender field = token bridge id, emitted by ANOTHER contract
	case "other-contract-index1":
		m.Contract, m.Index = alphh.OtherID, 1
	}
	return m
}

func hold(mainnet bool, kind string, cl int) int {
	h := cl
	if mainnet && kind == "transfer" && h < 205 {
		h = 205
	}
	return h*16 + 1
}

func bases() []scenario {
	var out []scenario
	add := func(kind string, cl int, mainnet bool) {
		m := mkMsg(kind, cl)
		tx := m.Tx
		st := []alphh.Step{
			{Op: "emit", Msg: &m, Block: 1, Height: 11},
			{Op: "evtick"},
			{Op: "htick"},
			{Op: "height+", Height: int32(cl)},
			{Op: "clock", Sec: hold(mainnet, kind, cl)},
			{Op: "htick"},
			{Op: "reobs", Tx: tx},
			{Op: "htick"},
		}
		net := "testnet"
		if mainnet {
			net = "mainnet"
		}
		out = append(out, scenario{Name: fmt.Sprintf("%s/cl%d/%s", kind, cl, net), Mainnet: mainnet, Steps: st,
			Tokens: map[string]alphh.TokenAnswer{alphh.AddressOf(tokenID): {Kind: "ok", Symbol: "SYM", Name: "Token name", Decimals: 8}}})
	}
	for _, cl := range []int{0, 1, 2, 204, 205, 206, 255} {
		add("transfer", cl, false)
		add("transfer", cl, true)
	}
	// the re-observation request arrives when the chain depth is reached and level x 16 s have passed, but (on
	// mainnet) before the 205-interval floor; and once more after it
	for _, cl := range []int{0, 1, 2, 100, 204} {
		for _, mainnet := range []bool{true, false} {
			m := mkMsg("transfer", cl)
			early := cl*16 + 1
			st := []alphh.Step{
				{Op: "emit", Msg: &m, Block: 1, Height: 11},
				{Op: "evtick"},
				{Op: "htick"},
				{Op: "height+", Height: int32(cl)},
				{Op: "clock", Sec: early},
				{Op: "reobs", Tx: m.Tx},
				{Op: "htick"},
				{Op: "clock", Sec: 205*16 + 1 - early},
				{Op: "reobs", Tx: m.Tx},
				{Op: "htick"},
			}
			net := "testnet"
			if mainnet {
				net = "mainnet"
			}
			out = append(out, scenario{Name: fmt.Sprintf("transfer/cl%d/%s/re-observed-before-the-floor", cl, net), Mainnet: mainnet, Steps: st})
		}
	}
	for _, k := range []string{"attest-matching", "attest-mismatching", "attest-symbol-interior-nul", "attest-name-interior-nul", "foreign-sender", "lookalike-other-contract", "other-contract-index1"} {
		add(k, 2, false)
		add(k, 2, true)
	}
	// an attestation sent by the token bridge whose token contract cannot be asked (every metadata query fails, in
	// one of several ways): what is attested cannot be compared with what the contract reports - never forwarded
	for _, tk := range []string{"second-failed", "third-failed", "all-failed", "two-results", "wrong-arity", "wrong-type", "api-error"} {
		for _, mainnet := range []bool{false, true} {
			m := mkMsg("attest-matching", 2)
			st := []alphh.Step{{Op: "emit", Msg: &m, Block: 1, Height: 11}, {Op: "evtick"}, {Op: "htick"}, {Op: "height+", Height: 2}, {Op: "clock", Sec: 33}, {Op: "htick"}, {Op: "reobs", Tx: m.Tx}, {Op: "htick"}}
			net := "testnet"
			if mainnet {
				net = "mainnet"
			}
			out = append(out, scenario{Name: fmt.Sprintf("attest-token-answers-%s/%s", tk, net), Mainnet: mainnet, Steps: st,
				Tokens: map[string]alphh.TokenAnswer{alphh.AddressOf(tokenID): {Kind: tk, Symbol: "SYM", Name: "Token name", Decimals: 8}}})
		}
	}
	// a transaction that carries BOTH a legitimate message and a look-alike emitted by another contract
	{
		m := mkMsg("transfer", 2)
		l := mkMsg("lookalike-other-contract", 2)
		l.Seq = "6"
		st := []alphh.Step{{Op: "emit", Msg: &m, Block: 1, Height: 11}, {Op: "emit", Msg: &l, Block: 1, Height: 11}, {Op: "evtick"}, {Op: "height+", Height: 2}, {Op: "clock", Sec: 40}, {Op: "htick"}, {Op: "reobs", Tx: m.Tx}}
		out = append(out, scenario{Name: "legit+lookalike in one tx/testnet", Steps: st})
	}
	// one poll that spans several pages of the event log (three / five messages, pages of one or two events)
	for _, n := range []int{3, 5} {
		for _, ps := range []int{1, 2} {
			var st []alphh.Step
			for i := 0; i < n; i++ {
				m := mkMsg("transfer", 1)
				m.Seq, m.Tx = fmt.Sprint(5+i), alphh.TxID(1+i)
				mm := m
				st = append(st, alphh.Step{Op: "emit", Msg: &mm, Block: 1, Height: 11})
			}
			st = append(st, alphh.Step{Op: "evtick"}, alphh.Step{Op: "htick"}, alphh.Step{Op: "height+", Height: 1}, alphh.Step{Op: "clock", Sec: 17}, alphh.Step{Op: "htick"}, alphh.Step{Op: "evtick"}, alphh.Step{Op: "htick"})
			out = append(out, scenario{Name: fmt.Sprintf("%d-messages-in-one-poll/pages-of-%d/testnet", n, ps), PageSize: ps, Steps: st})
		}
	}
	// two messages in one block with different consistency levels
	{
		a, b := mkMsg("transfer", 1), mkMsg("transfer", 3)
		b.Seq, b.Tx = "6", alphh.TxID(2)
		st := []alphh.Step{{Op: "emit", Msg: &a, Block: 1, Height: 11}, {Op: "emit", Msg: &b, Block: 1, Height: 11}, {Op: "evtick"}, {Op: "height+", Height: 1}, {Op: "clock", Sec: 17}, {Op: "htick"},
			{Op: "height+", Height: 2}, {Op: "clock", Sec: 40}, {Op: "htick"}, {Op: "htick"}}
		out = append(out, scenario{Name: "two levels in one block/testnet", Steps: st})
	}
	return out
}

func menu(sc scenario) []alphh.Step {
	tx := alphh.TxID(1)
	m := []alphh.Step{{Op: "evtick"}, {Op: "htick"}, {Op: "reobs", Tx: tx}, {Op: "height+", Height: 1}, {Op: "height+", Height: 300}, {Op: "clock", Sec: 16}, {Op: "clock", Sec: 3300},
		{Op: "orphan", Block: 1}, {Op: "reinclude", Tx: tx, Block: 2, Height: 12}, {Op: "restart"},
		// the height the node reports falls BELOW the event's block (a stale height answer, a lagging node behind a
		// load balancer, a reorg to a heavier but shorter fork)
		{Op: "height", Height: 10}, {Op: "height", Height: 1}}
	for _, ep := range []string{"count", "page", "height", "main-chain", "header", "tx-status", "events-by-tx", "multicall"} {
		m = append(m, alphh.Step{Op: "fault", EP: ep})
	}
	return m
}

func edits1(base []alphh.Step, menu []alphh.Step) [][]alphh.Step {
	var out [][]alphh.Step
	cp := func(s []alphh.Step) []alphh.Step { return append([]alphh.Step{}, s...) }
	for pos := 0; pos <= len(base); pos++ {
		for _, it := range menu {
			h := append(append(cp(base[:pos]), it), base[pos:]...)
			out = append(out, h)
		}
	}
	for i := 0; i+1 < len(base); i++ {
		h := cp(base)
		h[i], h[i+1] = h[i+1], h[i]
		out = append(out, h)
	}
	for i := range base {
		out = append(out, append(cp(base[:i]), base[i+1:]...))
	}
	return out
}

var executions, forwards, stimuli, curItem int

func run(sc scenario, steps []alphh.Step, check bool) (fwd []string) {
	executions++
	ps := sc.PageSize
	if ps == 0 {
		ps = 100
	}
	w := alphh.NewWorld(sc.Mainnet, 10, ps)
	defer w.Close()
	for k, v := range sc.Tokens {
		w.Sim.Tokens[k] = v
	}
	polled := map[string]int{}
	for i, s := range steps {
		stimuli++
		ev.Journal(map[string]interface{}{"name": sc.Name, "mainnet": sc.Mainnet, "tokens": sc.Tokens, "steps": steps[:i+1], "resume": curItem + 1})
		for _, f := range w.Apply(s) {
			forwards++
			fwd = append(fwd, fmt.Sprintf("%d:%s:seq%d", i, f.Path, f.MP.Sequence))
			if !check {
				continue
			}
			if why := w.Judge(f); why != "" {
				viol(sc, steps[:i+1], "C08 "+f.Path+" path: "+why, fmt.Sprintf("message seq=%d level=%d", f.MP.Sequence, f.MP.ConsistencyLevel))
			}
			if f.Path == "polling" {
				id := fmt.Sprintf("%d@%d", f.MP.Sequence, f.MP.Timestamp.UnixMilli())
				polled[id]++
				if polled[id] > 1 && len(w.Died) == 0 {
					viol(sc, steps[:i+1], "C08 polling path forwarded the same fetched event more than once", id)
				}
			}
		}
	}
	return fwd
}

// productionWiring: the scenarios construct the watcher with isMainnet = true exactly for the mainnet scenarios. In
// the node that argument is bound in cmd/guardiand/node.go: whatever spelling of --network loads the mainnet
// contracts must also set isMainnet (read with go/ast; the two expressions must be functions of the same value).
func productionWiring() {
	nodeGo := filepath.Join(r.Repo, "node/cmd/guardiand/node.go")
	isMain, err := wiring.ArgFor(nodeGo, "alephium.NewAlephiumWatcher", filepath.Join(r.Repo, "node/pkg/alephium/watcher.go"), "NewAlephiumWatcher", "isMainnet")
	cfgArg, err2 := wiring.CallArgs(nodeGo, "common.ReadConfigsByNetwork")
	if err != nil || err2 != nil || len(isMain) != 1 || len(cfgArg) != 1 || len(cfgArg[0]) != 1 {
		ev.Broken("node.go wiring of the Alephium watcher: %v %v", err, err2)
	}
	m := regexp.MustCompile(`^(.+) == "mainnet"$`).FindStringSubmatch(isMain[0])
	r.Set("alephium_isMainnet_argument", isMain[0])
	r.Set("config_network_argument", cfgArg[0][0])
	if m == nil {
		ev.Broken("node.go: isMainnet argument %q outside the recognised wiring", isMain[0])
	}
	if m[1] != cfgArg[0][0] {
		r.Violation("production wiring: the network whose contracts are loaded and the mainnet confirmation floor are decided by different values", fmt.Sprintf("configs are loaded for %s, isMainnet is %s", cfgArg[0][0], isMain[0]), map[string]string{"configs": cfgArg[0][0], "isMainnet": isMain[0]})
	}
}

func viol(sc scenario, steps []alphh.Step, key, what string) {
	var pretty []string
	for _, s := range steps {
		pretty = append(pretty, s.String())
	}
	r.Violation(key, what+"  ["+sc.Name+"]  history: "+strings.Join(pretty, " "), scenario{Name: sc.Name, Mainnet: sc.Mainnet, PageSize: sc.PageSize, Tokens: sc.Tokens, Steps: steps})
}

func main() {
	r = ev.Start("C08", "model_checking")
	if len(os.Args) > 2 && os.Args[1] == "--replay" {
		b, _ := os.ReadFile(os.Args[2])
		var art struct {
			Replay scenario `json:"replay"`
		}
		if json.Unmarshal(b, &art) != nil {
			ev.Broken("bad artefact")
		}
		fmt.Println(run(art.Replay, art.Replay.Steps, true), r.Violations(), "violations")
		if r.Violations() > 0 {
			os.Exit(1)
		}
		os.Exit(0)
	}
	bs := bases()
	si, sn, worker := ev.Shard()
	if !worker {
		r.Set("base_scenarios", len(bs))
		productionWiring()
		r.Fork(0, nil, r.CrashViolation)
		r.Set("rule", "states/transitions count executions of the real watcher and stimuli applied; histories are not merged (the watcher's fromIndex / pending set are local to its goroutines): every history within the edit bound around every base scenario is run in full")
		r.Assume("one stimulus at a time: interleavings finer than a whole reaction of the watcher to one tick / request are not explored")
		r.Assume("client.go request deadlines stay on the real clock (10 s); everything else the watcher sees (tickers, time.Now, every node answer) is owned by the harness")
		r.Finish()
		return
	}
	t0 := time.Now()
	for bi, sc := range bs {
		if bi%sn != si || bi < ev.Resume() {
			continue
		}
		curItem = bi
		// determinism self-test: the base scenario twice gives the same observations
		a, b := run(sc, sc.Steps, false), run(sc, sc.Steps, false)
		if fmt.Sprint(a) != fmt.Sprint(b) {
			ev.Broken("determinism self-test failed for %s: %v vs %v", sc.Name, a, b)
		}
		fw := run(sc, sc.Steps, true)
		r.Sample(map[string]interface{}{"base": sc.Name, "forwards(step:path:seq)": fw})
		mn := menu(sc)
		e1 := edits1(sc.Steps, mn)
		for _, h := range e1 {
			run(sc, h, true)
		}
		if r.Thorough() || bi%6 == 0 {
			// second edit: an insertion or drop on top of every first edit (bounded by a budget per base)
			budget := r.Pick(1500, 40000)
			n := 0
		outer:
			for _, h := range e1 {
				for pos := 0; pos <= len(h); pos += 1 {
					for _, it := range mn {
						if n >= budget {
							r.Cap(fmt.Sprintf("2-edit budget %d reached for base %s", budget, sc.Name))
							break outer
						}
						n++
						run(sc, append(append(append([]alphh.Step{}, h[:pos]...), it), h[pos:]...), true)
					}
				}
			}
		}
	}
	r.Add("states", executions)
	r.Add("transitions", stimuli)
	r.Add("traces_validated_against_impl", executions)
	r.Add("forwards_judged", forwards)
	if os.Getenv("VERIF_VERBOSE") != "" {
		fmt.Fprintf(os.Stderr, "shard %d: %d executions %d stimuli %.1fs\n", si, executions, stimuli, time.Since(t0).Seconds())
	}
	r.Finish()
}
