// C10: EVM messages reach the signer only from the core contract and when final, exactly once.
// Deviation-bounded exhaustive exploration of the real EVM watcher (NewEthWatcher(...).Run under a
// real supervisor: real connector, block poller, log subscription, ABI decoding, by_transaction.go)
// against a simulated chain served by go-ethereum's own rpc.Server over an in-memory pipe. Around
// base scenarios (each consistency level x confirmation mode x finalized mode x {stays, orphaned,
// re-mined, failed}, logs of other contracts / other topics, head jumps of 1..200) every history within
// 1 (thorough 2) edits is executed; every forwarded message is judged against the chain's ground
// truth at that step, and at a fair horizon every message whose transaction stayed in its block must
// have been forwarded exactly once.
package main

import (
	"encoding/json"
	"fmt"
	"os"
	"path/filepath"
	"regexp"
	"strings"
	"time"

	nodecommon "github.com/alephium/wormhole-fork/node/pkg/common"
	"github.com/alephium/wormhole-fork/node/verifh/ethh"
	"github.com/alephium/wormhole-fork/node/verifh/ev"
	"github.com/alephium/wormhole-fork/node/verifh/vtime"
	"github.com/alephium/wormhole-fork/node/verifh/wiring"
	"github.com/ethereum/go-ethereum/common"
)

var r *ev.Run

type step struct {
	Op     string         `json:"op"` // mine | head+ | head= | final= | poll | reobs | drop | remine | status0 | fault | restart | release
	Tx     int            `json:"tx,omitempty"`
	Block  uint64         `json:"block,omitempty"`
	Fork   int            `json:"fork,omitempty"`
	N      uint64         `json:"n,omitempty"`
	Logs   []ethh.LogSpec `json:"logs,omitempty"`
	Method string         `json:"method,omitempty"`
}

func (s step) String() string {
	switch s.Op {
	case "mine", "remine", "remine-silent":
		var k []string
		for _, l := range s.Logs {
			a := "core"
			if l.Address != ethh.Core {
				a = "other-contract"
			}
			k = append(k, fmt.Sprintf("%s/%s/seq%d/level%d", a, l.Topic, l.Seq, l.CL))
		}
		return fmt.Sprintf("%s(tx%d in block %d fork %d: %s)", s.Op, s.Tx, s.Block, s.Fork, strings.Join(k, ","))
	case "head+", "head=", "final=":
		return fmt.Sprintf("%s%d", s.Op, s.N)
	case "reobs", "drop", "status0":
		return fmt.Sprintf("%s(tx%d)", s.Op, s.Tx)
	case "removed":
		return fmt.Sprintf("removal-notice(tx%d: logs of the block it left)", s.Tx)
	case "fault":
		return "fault(" + s.Method + ")"
	case "hold":
		return fmt.Sprintf("hold(%s after %d calls)", s.Method, s.N)
	case "release1":
		return fmt.Sprintf("release(%s)", s.Method)
	case "release-one":
		return fmt.Sprintf("answer-one(%s)", s.Method)
	case "elapse":
		return fmt.Sprintf("elapse(%dms)", s.N)
	case "hold-log":
		return fmt.Sprintf("delay-goroutine-at-log(%q)", s.Method)
	case "release-log":
		return "resume-delayed-goroutine"
	}
	return s.Op
}

type scenario struct {
	Name      string `json:"name"`
	WaitConf  bool   `json:"wait_for_confirmations"`
	Finalized bool   `json:"finalized_mode"`
	Steps     []step `json:"steps"`
	// expectation for the liveness horizon: tx ids whose message must have been forwarded exactly once
	Level uint8 `json:"level"`
}

func txHash(i int) common.Hash { return common.BigToHash(common.Big256.SetInt64(int64(0xaa00 + i))) }

func txh(i int) common.Hash {
	var h common.Hash
	h[30], h[31] = 0xaa, byte(i)
	return h
}

type world struct {
	sc  scenario
	c   *ethh.Chain
	d   *ethh.Driver
	fwd map[string]int // polling-path forwards per tx/seq/block time
	n   int
	reobsOpen bool
	nReobs    int
	// what the node had answered per transaction at the moment a goroutine was delayed inside a log call: the
	// delayed goroutine acts on THAT knowledge when it is resumed, whatever other goroutines have asked since
	atPark map[common.Hash]ethh.Served
}

func newWorld(sc scenario) *world {
	c := ethh.NewChain(100)
	w := &world{sc: sc, c: c, d: ethh.NewDriver(c, sc.WaitConf, sc.Finalized), fwd: map[string]int{}}
	w.d.OnPark = func() { w.atPark = c.ServedSnapshot() }
	return w
}

var executions, stimuli, forwards, curItem int

func (w *world) apply(s step, hist []step, check bool) {
	stimuli++
	w.c.BeginStep()
	path := "polling"
	switch s.Op {
	case "mine":
		w.c.Mine(txh(s.Tx), s.Block, s.Fork, 1, s.Logs, true)
		if w.sc.Finalized {
			// finalized mode: heads the watcher reads are the finalized tag; keep it where it was
		}
		w.d.Quiesce()
	case "remine":
		w.c.Mine(txh(s.Tx), s.Block, s.Fork, 1, s.Logs, true)
		w.d.Quiesce()
	case "remine-silent": // the chain has reorganised, the node has not announced the new log yet
		w.c.Mine(txh(s.Tx), s.Block, s.Fork, 1, s.Logs, false)
	case "head+":
		h, _ := w.c.Snapshot()
		w.c.SetHead(h + s.N)
	case "head=":
		w.c.SetHead(s.N)
	case "final=":
		n := s.N
		if h, _ := w.c.Snapshot(); n > h {
			n = h // a finalized head beyond the latest one is not a chain (edits can drop the step that advanced the head)
		}
		w.c.SetFinalized(n)
	case "final+":
		h, _ := w.c.Snapshot()
		w.c.SetFinalized(h)
	case "poll":
		w.d.Poll()
	case "reobs":
		path = "reobs"
		w.nReobs++
		before := w.c.Parked()
		w.d.Reobs(txh(s.Tx))
		w.reobsOpen = w.c.Parked() > before // the re-observation itself is suspended in a node call
	case "drop":
		w.c.DropReceipt(txh(s.Tx))
	case "removed": // the node announces the logs of the block the transaction has left, flagged as removed
		w.c.NotifyRemoved(txh(s.Tx))
		w.d.Quiesce()
	case "status0":
		w.c.SetStatus(txh(s.Tx), 0)
	case "fault":
		w.c.Fail(s.Method)
	case "hold":
		w.c.HoldMethod(s.Method, int(s.N))
	case "releaseall":
		w.d.ReleaseLog()
		w.c.ReleaseAll()
		w.d.Quiesce()
	case "hold-log": // the goroutine that writes the next log entry containing Method is delayed inside that call
		w.d.HoldLog(s.Method, int(s.N))
	case "release-log":
		w.d.ReleaseLog()
		w.d.Quiesce()
	case "release1":
		w.c.ReleaseMethod(s.Method)
		w.d.Quiesce()
	case "release-one":
		w.c.ReleaseOne(s.Method)
		w.d.Quiesce()
	case "elapse": // virtual time passes; request deadlines (context timeouts) that are due by then expire
		vtime.Advance(time.Duration(s.N) * time.Millisecond)
		vtime.FireDue("ctx:")
		w.d.Quiesce()
	case "restart":
		w.d.Restart()
	case "release":
		w.d.ReleaseSleepers()
	default:
		panic("unknown op " + s.Op)
	}
	if s.Op == "releaseall" && w.reobsOpen {
		path = "reobs"
	}
	for _, m := range w.d.Take() {
		forwards++
		// every forward is counted: when reactions are suspended in node calls a forward cannot be attributed
		// to a path by the step it surfaces in, so the bound is 1 (polling) + number of re-observation requests
		w.fwd[fmt.Sprintf("%x/%d/%d", m.TxHash[30:], m.Sequence, m.Timestamp.Unix())]++
		if !check {
			continue
		}
		w.judge(m.TxHash, m.Sequence, m.ConsistencyLevel, m.Timestamp.Unix(), path, hist)
	}
}

// judge: ground truth is what the node told the watcher when it last answered a receipt request for this
// transaction (a chain that moves after that answer is outside any watcher's knowledge), and the depth
// must have been established from a head served BEFORE that answer.
func (w *world) judge(tx common.Hash, seq uint64, cl uint8, ts int64, path string, hist []step) {
	sv, asked := w.c.ServedReceipt(tx)
	key, what := w.judgeWith(sv, asked, seq, cl, ts, path)
	if key != "" && w.atPark != nil {
		// a goroutine was delayed in the middle of its reaction: a forward is also justified by the answer that
		// goroutine had when it was stopped
		if sv2, ok := w.atPark[tx]; ok {
			if k2, _ := w.judgeWith(sv2, true, seq, cl, ts, path); k2 == "" {
				key = ""
			}
		}
	}
	if key != "" {
		viol(w.sc, hist, key, what)
	}
	for k, n := range w.fwd {
		if n > 1+w.nReobs {
			viol(w.sc, hist, "C10 the same message was forwarded more often than once by polling plus once per re-observation request", fmt.Sprintf("%s: %d forwards, %d re-observation requests", k, n, w.nReobs))
		}
	}
}

// judgeWith judges one forward against one receipt answer; it returns the first objection ("" = justified).
func (w *world) judgeWith(sv ethh.Served, asked bool, seq uint64, cl uint8, ts int64, path string) (string, string) {
	key := "C10 " + path + " path: "
	required := uint64(0)
	if w.sc.WaitConf && !w.sc.Finalized {
		required = uint64(cl)
	}
	if !asked {
		return key+"forwarded without ever looking up the transaction's receipt", ""
	}
	rc := sv.Receipt
	if rc == nil {
		return key+"forwarded although the node answered that it does not know the transaction (orphaned)", ""
	}
	if rc.Status != 1 {
		return key+"forwarded although the receipt the node returned has a non-success status", ""
	}
	found := false
	ev0 := ethh.ABI.Events["LogMessagePublished"]
	for _, l := range rc.Logs {
		var out struct {
			TargetChainId    uint16
			Sequence         uint64
			Nonce            uint32
			Payload          []byte
			ConsistencyLevel uint8
		}
		if err := ethh.ABI.UnpackIntoInterface(&out, "LogMessagePublished", l.Data); err != nil || out.Sequence != seq {
			continue
		}
		if l.Address == ethh.Core && len(l.Topics) > 0 && l.Topics[0] == ev0.ID {
			found = true
		}
	}
	if !found {
		return key+"forwarded a log that was not emitted by the core contract with the message-published topic", ""
	}
	if w.sc.Finalized && sv.FinalBefore < rc.BlockNumber.Uint64() {
		return key + "forwarded although no FINALIZED head observed before the receipt lookup had reached the transaction's block (this chain is read at finalized height)", fmt.Sprintf("finalized head served before the lookup %d, block %d", sv.FinalBefore, rc.BlockNumber.Uint64())
	}
	if sv.HeadBefore < rc.BlockNumber.Uint64()+required {
		return key+"forwarded although no head observed before the receipt lookup had reached block + required confirmations", fmt.Sprintf("head served before the lookup %d, block %d, required %d", sv.HeadBefore, rc.BlockNumber.Uint64(), required)
	}
	// the receipt points to the block the message was observed in (block times are unique per fork)
	bt := int64(1_700_000_000 + rc.BlockNumber.Uint64()*12)
	for f := 0; f < 4; f++ {
		if ethh.BlockHash(rc.BlockNumber.Uint64(), f) == rc.BlockHash {
			bt += int64(f)
		}
	}
	if ts != bt {
		return key+"forwarded a message observed in another block than the one the returned receipt points to (re-mined)", fmt.Sprintf("message block time %d, receipt block time %d", ts, bt)
	}
	return "", ""
}

func viol(sc scenario, steps []step, key, what string) {
	var pretty []string
	for _, s := range steps {
		pretty = append(pretty, s.String())
	}
	cp := sc
	cp.Steps = steps
	r.Violation(key, what+"  ["+sc.Name+"]  history: "+strings.Join(pretty, " "), cp)
}

// logCapture, when set, receives the log messages written during each step of the next run.
var logCapture *[][]string

// logVariants: a log call is a point at which a goroutine can be delayed. For every step of the base and every
// distinct message logged during it, the goroutine writing that entry is parked inside the log call and resumed
// (a) after the NEXT stimulus, (b) after all remaining stimuli - the reactions of the other goroutines to those
// stimuli happen while this one stands still in the middle of its own reaction.
func logVariants(sc scenario) {
	var logs [][]string
	logCapture = &logs
	run(sc, sc.Steps, false)
	logCapture = nil
	for i := range sc.Steps {
		if i >= len(logs) {
			break
		}
		seen := map[string]bool{}
		for _, m := range logs[i] {
			if seen[m] || strings.Contains(m, "supervisor") {
				continue
			}
			seen[m] = true
			pre := append(append([]step{}, sc.Steps[:i]...), step{Op: "hold-log", Method: m}, sc.Steps[i])
			rest := sc.Steps[i+1:]
			if len(rest) > 0 {
				a := append(append(append([]step{}, pre...), rest[0], step{Op: "release-log"}), rest[1:]...)
				run(sc, a, true)
			}
			b := append(append(append([]step{}, pre...), rest...), step{Op: "release-log"})
			run(sc, b, true)
			logRuns += 2
		}
	}
}

var logRuns int

// run executes steps, then the fair closing schedule, then judges the horizon.
func run(sc scenario, steps []step, check bool) string {
	executions++
	w := newWorld(sc)
	defer w.d.Close()
	faulted, died := false, false
	receiptFault, bigJump := false, false
	advanced := uint64(sc.Level) + 1 // the first step of the closing schedule
	for _, s := range steps {
		if s.Op == "fault" && s.Method == "eth_getTransactionReceipt" {
			receiptFault = true
		}
		if s.Op == "head+" {
			advanced += s.N
		}
	}
	// the watcher looks a message up once per head it sees: when the heads of the history plus the first closing
	// step cross the whole window, ONE failed lookup can be the only one inside it (e.g. +59, lookup fails, +1)
	bigJump = advanced >= 60
	if receiptFault && bigJump {
		// the head crosses the whole abandonment window in one step: the single lookup inside the window failed,
		// so the node HAS failed to confirm the message for the whole window - abandonment is allowed
		faulted = true
	}
	for i, s := range steps {
		ev.Journal(map[string]interface{}{"name": sc.Name, "wait_for_confirmations": sc.WaitConf, "finalized_mode": sc.Finalized, "steps": steps[:i+1], "resume": curItem + 1})
		if s.Op == "fault" && s.Method != "eth_getTransactionReceipt" {
			// an error on a block lookup ends the watcher's Run (the supervisor restarts it): the pending set and
			// the consumed log are lost - another component's concern. An error on a RECEIPT lookup must not lose
			// anything: the message is abandoned only after the whole abandonment window.
			faulted = true
		}
		nlog := len(w.d.LogSince(0))
		w.apply(s, steps[:i+1], check)
		if logCapture != nil {
			*logCapture = append(*logCapture, w.d.LogSince(nlog))
		}
		if !w.d.Running() {
			died = true
		}
	}
	// closing: the head advances by the message's level in one step, then three more single blocks, with a
	// poll after each (a jump by exactly the required depth can never be an abandonment)
	w.apply(step{Op: "releaseall"}, steps, check) // fair schedule: every suspended answer eventually arrives
	for k := 0; k < 4; k++ {
		if !w.d.Running() {
			died = true
			w.d.Restart()
		}
		head, _ := w.c.Snapshot()
		inc := uint64(1)
		if k == 0 {
			inc = uint64(sc.Level) + 1
		}
		w.c.SetHead(head + inc)
		if sc.Finalized {
			w.c.SetFinalized(head + inc)
		}
		w.apply(step{Op: "poll"}, steps, check)
	}
	if !check {
		return fmt.Sprint(w.fwd)
	}
	// horizon: every message of a transaction that is still in the block it was first mined in, with a
	// success receipt and a core-contract published log, was forwarded exactly once by the polling path -
	// unless the watcher died (restart loses the pending set: that is another component's concern) or a fault was injected
	envCause := false // something outside the watcher that can end its Run: an RPC error, a restart, a deadline that expired
	for _, s := range steps {
		if s.Op == "fault" || s.Op == "restart" || s.Op == "elapse" {
			envCause = true
		}
	}
	if died && !envCause {
		// the node answered every request and nobody restarted the watcher: it ended its own Run. The log it had
		// consumed is gone with it, so the messages below are judged as usual.
		viol(sc, steps, "C10 the watcher's Run ended although the node answered every request and no restart was asked for", strings.Join(w.d.Exits, "; "))
	} else if died || faulted {
		return fmt.Sprint(w.fwd)
	}
	first := map[int]step{}
	moved := map[int]bool{}
	last := map[int]step{}   // re-mined transactions: the block they end up in ...
	gone := map[int]bool{}    // ... unless they disappear or fail afterwards
	for _, s := range steps {
		switch s.Op {
		case "mine":
			if _, ok := first[s.Tx]; !ok {
				first[s.Tx] = s
			} else {
				moved[s.Tx] = true // placed a second time (an edit put a re-mine in front of it)
				last[s.Tx] = s
				gone[s.Tx] = false
			}
		case "remine-silent": // moved, and the node has not announced the new log: nothing to expect until it does
			if _, ok := first[s.Tx]; !ok {
				first[s.Tx] = s
			}
			moved[s.Tx] = true
			delete(last, s.Tx)
		case "remine":
			if _, ok := first[s.Tx]; !ok {
				first[s.Tx] = s
			} else {
				moved[s.Tx] = true
			}
			last[s.Tx] = s
			gone[s.Tx] = false
		case "drop", "status0":
			moved[s.Tx] = true
			gone[s.Tx] = true
		}
	}
	// a transaction that was re-mined and then STAYS in its new block: the message observed there is forwarded
	for tx, s := range last {
		if gone[tx] || !moved[tx] {
			continue // disappeared / failed afterwards, or placed only once (judged below)
		}
		bt := int64(1_700_000_000+s.Block*12) + int64(s.Fork)
		for _, l := range s.Logs {
			if l.Address != ethh.Core || l.Topic != "published" {
				continue
			}
			if w.fwd[fmt.Sprintf("%x/%d/%d", txh(tx).Bytes()[30:], l.Seq, bt)] == 0 {
				viol(sc, steps, "C10 a message whose transaction was re-mined and then stayed in its new block was never forwarded although the node never failed to confirm it", fmt.Sprintf("tx%d seq %d level %d, block %d fork %d", tx, l.Seq, l.CL, s.Block, s.Fork))
			}
		}
	}
	for tx, s := range first {
		if moved[tx] {
			continue
		}
		for _, l := range s.Logs {
			want := 0
			if l.Address == ethh.Core && l.Topic == "published" {
				want = 1
			}
			got := 0
			for k, n := range w.fwd {
				if strings.HasPrefix(k, fmt.Sprintf("%x/%d/", txh(tx).Bytes()[30:], l.Seq)) {
					got += n
				}
			}
			switch {
			case want == 1 && got == 0:
				viol(sc, steps, "C10 a message whose transaction stayed in its block was never forwarded although the node never failed to confirm it", fmt.Sprintf("tx%d seq %d level %d", tx, l.Seq, l.CL))
			case want == 0 && got > 0:
				viol(sc, steps, "C10 a log of another contract / another topic was forwarded", fmt.Sprintf("tx%d seq %d: %d", tx, l.Seq, got))
			case got > want+w.nReobs:
				viol(sc, steps, "C10 the same message was forwarded more often than once by polling plus once per re-observation request", fmt.Sprintf("tx%d seq %d: %d forwards", tx, l.Seq, got))
			}
		}
	}
	return fmt.Sprint(w.fwd)
}

func bases() []scenario {
	var out []scenario
	core := func(seq uint64, cl uint8) ethh.LogSpec {
		return ethh.LogSpec{Address: ethh.Core, Topic: "published", Seq: seq, CL: cl}
	}
	for _, cl := range []uint8{0, 1, 15, 200} {
		for _, wc := range []bool{true, false} {
			for _, fin := range []bool{false, true} {
				mode := fmt.Sprintf("level%d/wait=%v/finalized=%v", cl, wc, fin)
				mine := step{Op: "mine", Tx: 1, Block: 101, Logs: []ethh.LogSpec{core(5, cl)}}
				adv := func(n uint64) []step {
					if fin {
						return []step{{Op: "head+", N: n}, {Op: "final+"}}
					}
					return []step{{Op: "head+", N: n}}
				}
				cat := func(parts ...[]step) []step {
					var o []step
					for _, p := range parts {
						o = append(o, p...)
					}
					return o
				}
				P := []step{{Op: "poll"}}
				out = append(out,
					scenario{Name: "stays/" + mode, WaitConf: wc, Finalized: fin, Level: cl, Steps: cat([]step{mine}, P, adv(1), P, adv(uint64(cl)), P, []step{{Op: "reobs", Tx: 1}}, P)},
					scenario{Name: "orphaned/" + mode, WaitConf: wc, Finalized: fin, Level: cl, Steps: cat([]step{mine}, P, []step{{Op: "drop", Tx: 1}}, adv(uint64(cl)+1), P, []step{{Op: "reobs", Tx: 1}})},
					scenario{Name: "re-mined/" + mode, WaitConf: wc, Finalized: fin, Level: cl, Steps: cat([]step{mine}, P, []step{{Op: "remine", Tx: 1, Block: 102, Fork: 1, Logs: []ethh.LogSpec{core(5, cl)}}}, adv(uint64(cl)+1), P, adv(2), P)},
					scenario{Name: "failed/" + mode, WaitConf: wc, Finalized: fin, Level: cl, Steps: cat([]step{mine}, P, []step{{Op: "status0", Tx: 1}}, adv(uint64(cl)+1), P, []step{{Op: "reobs", Tx: 1}})},
				)
				for _, jump := range []uint64{2, 59, 60, 61, 200} {
					if wc && !fin || cl == 0 {
						out = append(out, scenario{Name: fmt.Sprintf("head-jump-%d/%s", jump, mode), WaitConf: wc, Finalized: fin, Level: cl, Steps: cat([]step{mine}, P, adv(jump+uint64(cl)), P)})
					}
				}
			}
		}
	}
	// logs of other contracts / other topics in the same transaction
	for _, wc := range []bool{true, false} {
		logs := []ethh.LogSpec{{Address: ethh.Other, Topic: "published", Seq: 6, CL: 1}, {Address: ethh.Core, Topic: "other", Seq: 7, CL: 1}, core(5, 1)}
		out = append(out, scenario{Name: fmt.Sprintf("mixed-logs/wait=%v", wc), WaitConf: wc, Level: 1,
			Steps: []step{{Op: "mine", Tx: 1, Block: 101, Logs: logs}, {Op: "poll"}, {Op: "head+", N: 2}, {Op: "poll"}, {Op: "reobs", Tx: 1}}})
		only := []ethh.LogSpec{{Address: ethh.Other, Topic: "published", Seq: 6, CL: 1}, {Address: ethh.Core, Topic: "other", Seq: 7, CL: 1}}
		out = append(out, scenario{Name: fmt.Sprintf("foreign-logs-only/wait=%v", wc), WaitConf: wc, Level: 1,
			Steps: []step{{Op: "mine", Tx: 1, Block: 101, Logs: only}, {Op: "poll"}, {Op: "head+", N: 2}, {Op: "poll"}, {Op: "reobs", Tx: 1}}})
		// a foreign contract's log with the message-published topic next to a genuine message, and alone
		for _, alone := range []bool{false, true} {
			fl := []ethh.LogSpec{{Address: ethh.Other, Topic: "published", Seq: 6, CL: 1}}
			if !alone {
				fl = append(fl, core(5, 1))
			}
			out = append(out, scenario{Name: fmt.Sprintf("foreign-contract-same-topic/alone=%v/wait=%v", alone, wc), WaitConf: wc, Level: 1,
				Steps: []step{{Op: "mine", Tx: 1, Block: 101, Logs: fl}, {Op: "poll"}, {Op: "head+", N: 2}, {Op: "poll"}, {Op: "reobs", Tx: 1}, {Op: "head+", N: 1}, {Op: "poll"}, {Op: "reobs", Tx: 1}}})
		}
		// two transactions
		out = append(out, scenario{Name: fmt.Sprintf("two-txs/wait=%v", wc), WaitConf: wc, Level: 3,
			Steps: []step{{Op: "mine", Tx: 1, Block: 101, Logs: []ethh.LogSpec{core(5, 1)}}, {Op: "mine", Tx: 2, Block: 102, Logs: []ethh.LogSpec{core(6, 3)}}, {Op: "poll"}, {Op: "head+", N: 1}, {Op: "poll"}, {Op: "head+", N: 3}, {Op: "poll"}}})
	}
	// a second message arrives after the first one is confirmed and the pending set has become empty (the poller
	// is switched off when nothing is pending and on again by the next message)
	for _, wc := range []bool{true, false} {
		out = append(out, scenario{Name: fmt.Sprintf("second-after-first-confirmed/wait=%v", wc), WaitConf: wc, Level: 5,
			Steps: []step{{Op: "mine", Tx: 1, Block: 101, Logs: []ethh.LogSpec{core(5, 1)}}, {Op: "poll"}, {Op: "head+", N: 2}, {Op: "poll"},
				{Op: "mine", Tx: 2, Block: 104, Logs: []ethh.LogSpec{core(6, 5)}}, {Op: "head+", N: 6}, {Op: "poll"}}})
	}
	// a chain read at finalized height whose finalized head lags the latest one: a transaction between the two is not
	// final - neither the per-head scan nor a re-observation request may forward it until the finalized head has
	// reached its block
	for _, wc := range []bool{true, false} {
		out = append(out, scenario{Name: fmt.Sprintf("finalized-lags-latest/wait=%v", wc), WaitConf: wc, Finalized: true, Level: 1,
			Steps: []step{{Op: "final=", N: 100}, {Op: "head+", N: 40}, {Op: "mine", Tx: 1, Block: 130, Logs: []ethh.LogSpec{core(5, 1)}}, {Op: "poll"}, {Op: "reobs", Tx: 1},
				{Op: "final=", N: 120}, {Op: "poll"}, {Op: "reobs", Tx: 1}, {Op: "final=", N: 135}, {Op: "poll"}}})
	}
	// a reorg re-mines the transaction in another block: the node announces the new block's log and, on a separate
	// feed, the removal of the old block's log - in either order; the transaction then stays in its new block
	for _, wc := range []bool{true, false} {
		for _, newFirst := range []bool{true, false} {
			for _, confirmedBefore := range []bool{false, true} {
				st := []step{{Op: "mine", Tx: 1, Block: 101, Logs: []ethh.LogSpec{core(5, 3)}}, {Op: "poll"}}
				if confirmedBefore {
					st = append(st, step{Op: "head+", N: 4}, step{Op: "poll"})
				}
				re := step{Op: "remine", Tx: 1, Block: 106, Fork: 1, Logs: []ethh.LogSpec{core(5, 3)}}
				if newFirst {
					st = append(st, re, step{Op: "removed", Tx: 1})
				} else {
					// the removal notice first: the sim records the old logs at the re-mine, so the re-mine is applied
					// without announcing its log, the notice is sent, then the new log is announced by re-mining again
					st = append(st, step{Op: "remine-silent", Tx: 1, Block: 106, Fork: 1, Logs: []ethh.LogSpec{core(5, 3)}}, step{Op: "removed", Tx: 1}, re)
				}
				st = append(st, step{Op: "head+", N: 10}, step{Op: "poll"}, step{Op: "head+", N: 1}, step{Op: "poll"})
				out = append(out, scenario{Name: fmt.Sprintf("re-mined-with-removal-notice/wait=%v/new-log-first=%v/confirmed-before=%v", wc, newFirst, confirmedBefore), WaitConf: wc, Level: 3, Steps: st})
			}
		}
	}
	// several messages with different consistency levels in ONE transaction (both orders), re-observed
	// while the head is between the two depths
	for _, lv := range [][2]uint8{{1, 15}, {15, 1}, {0, 3}} {
		logs := []ethh.LogSpec{core(5, lv[0]), core(6, lv[1])}
		for _, at := range []uint64{0, 2, 5, 20} {
			out = append(out, scenario{Name: fmt.Sprintf("two-levels-one-tx/%d-%d/reobs-at+%d", lv[0], lv[1], at), WaitConf: true, Level: 16,
				Steps: []step{{Op: "mine", Tx: 1, Block: 101, Logs: logs}, {Op: "poll"}, {Op: "head+", N: at}, {Op: "poll"}, {Op: "reobs", Tx: 1}, {Op: "head+", N: 3}, {Op: "poll"}, {Op: "reobs", Tx: 1}}})
		}
	}
	// two messages of the SAME level in one transaction: both become ready with the same head
	for _, wc := range []bool{true, false} {
		logs := []ethh.LogSpec{core(5, 1), core(6, 1)}
		out = append(out, scenario{Name: fmt.Sprintf("same-level-one-tx/wait=%v", wc), WaitConf: wc, Level: 1,
			Steps: []step{{Op: "mine", Tx: 1, Block: 101, Logs: logs}, {Op: "poll"}, {Op: "head+", N: 2}, {Op: "poll"}, {Op: "head+", N: 1}, {Op: "poll"}}})
	}
	// slow answers: a node call of the watcher is suspended while the chain moves (the answer order of the
	// node is owned by the harness); on the re-observation path and on the per-head scan
	for _, m := range []string{"eth_getBlockByNumber", "eth_getTransactionReceipt", "eth_getBlockByHash"} {
		for skip := uint64(0); skip <= 1; skip++ {
			for mi, mut := range [][]step{{{Op: "drop", Tx: 1}, {Op: "head+", N: 20}}, {{Op: "head+", N: 20}}, {{Op: "drop", Tx: 1}},
				{{Op: "remine", Tx: 1, Block: 104, Fork: 1, Logs: []ethh.LogSpec{core(5, 5)}}, {Op: "head+", N: 20}}, {{Op: "status0", Tx: 1}, {Op: "head+", N: 20}}} {
				pre := []step{{Op: "mine", Tx: 1, Block: 101, Logs: []ethh.LogSpec{core(5, 5)}}, {Op: "poll"}, {Op: "head+", N: 2}, {Op: "poll"}}
				st := append(append(append([]step{}, pre...), step{Op: "hold", Method: m, N: skip}, step{Op: "reobs", Tx: 1}), mut...)
				st = append(st, step{Op: "releaseall"})
				out = append(out, scenario{Name: fmt.Sprintf("slow-%s-after%d/reobs/mutation%d", m, skip, mi), WaitConf: true, Level: 5, Steps: st})
				st2 := append(append(append([]step{}, pre...), step{Op: "head+", N: 3}, step{Op: "hold", Method: m, N: skip}, step{Op: "poll"}), mut...)
				st2 = append(st2, step{Op: "releaseall"})
				out = append(out, scenario{Name: fmt.Sprintf("slow-%s-after%d/poll/mutation%d", m, skip, mi), WaitConf: true, Level: 5, Steps: st2})
			}
		}
	}
	// overlapping lookups: node calls of TWO watcher goroutines are in flight at once (the log goroutine's
	// block lookup for a new message B, and the per-head scan's or the re-observation's receipt lookup for
	// the pending message A) and the node answers them in either order
	const rcpt, byHash = "eth_getTransactionReceipt", "eth_getBlockByHash"
	for _, second := range []string{"scan", "reobs"} {
		for _, order := range [][2]string{{byHash, rcpt}, {rcpt, byHash}} {
			for _, bFirst := range []bool{true, false} {
				st := []step{{Op: "mine", Tx: 1, Block: 101, Logs: []ethh.LogSpec{core(5, 2)}}, {Op: "poll"}, {Op: "head+", N: 3}}
				logB := []step{{Op: "hold", Method: byHash}, {Op: "mine", Tx: 2, Block: 104, Logs: []ethh.LogSpec{core(6, 1)}}}
				lookA := []step{{Op: "hold", Method: rcpt}, {Op: "poll"}}
				if second == "reobs" {
					lookA = []step{{Op: "hold", Method: rcpt}, {Op: "reobs", Tx: 1}}
				}
				if bFirst {
					st = append(append(st, logB...), lookA...)
				} else {
					st = append(append(st, lookA...), logB...)
				}
				st = append(st, step{Op: "release1", Method: order[0]}, step{Op: "release1", Method: order[1]}, step{Op: "head+", N: 3}, step{Op: "poll"})
				out = append(out, scenario{Name: fmt.Sprintf("overlap/log-lookup+%s-lookup/first-answer=%s/log-first=%v", second, order[0], bFirst), WaitConf: true, Level: 2, Steps: st})
			}
		}
	}
	// slow node: several messages become ready with ONE head and every receipt answer takes 1.5 s of (virtual)
	// time - each well below the watcher's per-lookup deadline, together above it. Deadlines are on the virtual
	// clock and expire only when due. All messages stay in their block: all must be forwarded.
	for _, nmsg := range []int{2, 4, 5} {
		for _, each := range []uint64{1500, 2600, 4900} {
			st := []step{}
			for i := 1; i <= nmsg; i++ {
				st = append(st, step{Op: "mine", Tx: i, Block: 101, Logs: []ethh.LogSpec{core(uint64(4+i), 1)}})
			}
			st = append(st, step{Op: "poll"}, step{Op: "hold", Method: rcpt}, step{Op: "head+", N: 3}, step{Op: "poll"})
			for i := 0; i < nmsg; i++ {
				st = append(st, step{Op: "elapse", N: each}, step{Op: "release-one", Method: rcpt})
			}
			st = append(st, step{Op: "release1", Method: rcpt}, step{Op: "head+", N: 1}, step{Op: "poll"})
			out = append(out, scenario{Name: fmt.Sprintf("slow-node/%d-messages-ready-with-one-head/%dms-per-receipt", nmsg, each), WaitConf: true, Level: 1, Steps: st})
		}
	}
	return out
}

// productionConfig: "the configured core contract" of each EVM watcher. The explorations above hand the watcher a
// contract address; in the node it comes from configs/<chain>/<network>.json through common.ReadConfigsByNetwork
// and cmd/guardiand/node.go. For every network the REAL config loader is run on the repository's config files and
// each chain's core contract must be the one in that chain's own file; node.go's plumbing from the loaded
// config to the constructor (read with go/ast) must hand the Ethereum watcher the Ethereum contract and the BSC
// watcher the BSC contract.
func productionConfig() {
	exe, _ := os.Executable()
	link := filepath.Join(filepath.Dir(exe), "configs")
	os.Remove(link)
	if err := os.Symlink(filepath.Join(r.Repo, "configs"), link); err != nil {
		ev.Broken("configs symlink: %v", err)
	}
	defer os.Remove(link)
	own := func(chain, network string) (gov, tb string) {
		b, err := os.ReadFile(filepath.Join(r.Repo, "configs", chain, network+".json"))
		if err != nil {
			ev.Broken("%v", err)
		}
		var f struct {
			Contracts struct{ Governance, TokenBridge string }
		}
		if json.Unmarshal(b, &f) != nil || f.Contracts.Governance == "" {
			ev.Broken("configs/%s/%s.json: no contracts.governance", chain, network)
		}
		return f.Contracts.Governance, f.Contracts.TokenBridge
	}
	for _, network := range []string{"mainnet", "testnet", "devnet"} {
		cfg, err := nodecommon.ReadConfigsByNetwork(network)
		if err != nil {
			r.Violation("production config: the config loader fails on the repository's own config files", fmt.Sprintf("%s: %v", network, err), network)
			continue
		}
		for chain, got := range map[string]*nodecommon.ChainConfig{"ethereum": cfg.Ethereum, "bsc": cfg.Bsc, "alephium": cfg.Alephium} {
			g, t := own(chain, network)
			r.Add("config_facts", 1)
			if got == nil || got.Contracts.Governance != g || got.Contracts.TokenBridge != t {
				have := "nil"
				if got != nil {
					have = got.Contracts.Governance
				}
				r.Violation("production config: a chain's watcher is configured with another chain's (or network's) core contract", fmt.Sprintf("%s/%s: loader gives %s, configs/%s/%s.json has %s", chain, network, have, chain, network, g), map[string]string{"chain": chain, "network": network})
			}
		}
	}
	// node.go: loaded config -> constructor argument
	nodeGo := filepath.Join(r.Repo, "node/cmd/guardiand/node.go")
	src, _ := os.ReadFile(nodeGo)
	text := string(src)
	contracts, err := wiring.ArgFor(nodeGo, "ethereum.NewEthWatcher", filepath.Join(r.Repo, "node/pkg/ethereum/watcher.go"), "NewEthWatcher", "contract")
	chains, err2 := wiring.ArgFor(nodeGo, "ethereum.NewEthWatcher", filepath.Join(r.Repo, "node/pkg/ethereum/watcher.go"), "NewEthWatcher", "chainID")
	if err != nil || err2 != nil {
		ev.Broken("node.go wiring of the EVM watchers: %v %v", err, err2)
	}
	field := map[string]string{"vaa.ChainIDEthereum": "Ethereum", "vaa.ChainIDBSC": "Bsc"}
	for i := range contracts {
		f, ok := field[chains[i]]
		if !ok {
			ev.Broken("node.go: EVM watcher for unknown chain %s", chains[i])
		}
		// contracts[i] := eth_common.HexToAddress(<cfg>.Contracts.Governance) with <cfg> := bridgeConfig.<f>
		m := regexp.MustCompile(`(?m)^\s*` + regexp.QuoteMeta(contracts[i]) + ` := eth_common\.HexToAddress\((\w+)\.Contracts\.Governance\)`).FindStringSubmatch(text)
		if m == nil {
			ev.Broken("node.go: derivation of %s outside the recognised wiring", contracts[i])
		}
		m2 := regexp.MustCompile(`(?m)^\s*` + m[1] + ` := bridgeConfig\.(\w+)\s*$`).FindStringSubmatch(text)
		if m2 == nil {
			ev.Broken("node.go: origin of %s outside the recognised wiring", m[1])
		}
		r.Add("config_facts", 1)
		if m2[1] != f {
			r.Violation("production config: a chain's watcher is configured with another chain's (or network's) core contract", fmt.Sprintf("node.go: the watcher for %s gets %s = HexToAddress(bridgeConfig.%s.Contracts.Governance)", chains[i], contracts[i], m2[1]), map[string]string{"chain": chains[i], "from": m2[1]})
		}
	}
}

// guardianSets: the watcher also feeds the processor's guardian-set channel (fetched at start and every 15 s). What
// it delivers is a VALUE: the set with the chain's current index and keys at that time; an object that was
// delivered must not change when a later fetch sees a rotated set (the processor keeps it as the snapshot of
// pending messages).
func guardianSets() {
	for _, rotations := range []int{1, 2, 3} {
		c := ethh.NewChain(100)
		d := ethh.NewDriver(c, true, false)
		d.Quiesce()
		type snap struct {
			p     *nodecommon.GuardianSet
			index uint32
			keys  []common.Address
		}
		var got []snap
		take := func() {
			for {
				select {
				case gs := <-d.SetC:
					got = append(got, snap{gs, gs.Index, append([]common.Address{}, gs.Keys...)})
				default:
					return
				}
			}
		}
		take()
		for i := 0; i < rotations; i++ {
			c.Rotate()
			if !d.GuardianSetTick() {
				ev.Broken("guardian-set ticker not found")
			}
			take()
			d.GuardianSetTick() // a round without a change delivers nothing new
			take()
		}
		d.Close()
		r.Add("guardian_set_deliveries_checked", len(got))
		rec := map[string]interface{}{"rotations": rotations, "deliveries": len(got)}
		if len(got) != rotations+1 {
			r.Violation("guardian sets: the watcher does not deliver exactly one set per change on chain", fmt.Sprintf("%d rotations, %d deliveries", rotations, len(got)), rec)
			continue
		}
		for i, s := range got {
			want := ethh.GuardianKeys(uint32(i))
			same := s.p.Index == s.index && len(s.p.Keys) == len(s.keys)
			for k := 0; same && k < len(s.keys); k++ {
				same = s.p.Keys[k] == s.keys[k]
			}
			if !same {
				r.Violation("guardian sets: a delivered guardian set changed after a later fetch (the processor keeps it as the snapshot of pending messages)", fmt.Sprintf("delivery %d was index %d, is now index %d", i, s.index, s.p.Index), rec)
			}
			ok := s.index == uint32(i) && len(s.keys) == len(want)
			for k := 0; ok && k < len(want); k++ {
				ok = s.keys[k] == want[k]
			}
			if !ok {
				r.Violation("guardian sets: a delivered set is not the chain's set of that index", fmt.Sprintf("delivery %d: index %d", i, s.index), rec)
			}
		}
	}
}

func menu() []step {
	m := []step{{Op: "poll"}, {Op: "reobs", Tx: 1}, {Op: "head+", N: 1}, {Op: "head+", N: 61}, {Op: "drop", Tx: 1}, {Op: "status0", Tx: 1},
		{Op: "remine", Tx: 1, Block: 103, Fork: 2, Logs: []ethh.LogSpec{{Address: ethh.Core, Topic: "published", Seq: 5, CL: 1}}}, {Op: "restart"}, {Op: "release"}, {Op: "final+"}}
	for _, me := range []string{"eth_getBlockByNumber", "eth_getTransactionReceipt", "eth_getBlockByHash", "eth_call"} {
		m = append(m, step{Op: "fault", Method: me})
	}
	return m
}

func edits1(base, menu []step) [][]step {
	var out [][]step
	cp := func(s []step) []step { return append([]step{}, s...) }
	for pos := 0; pos <= len(base); pos++ {
		for _, it := range menu {
			out = append(out, append(append(cp(base[:pos]), it), base[pos:]...))
		}
	}
	for i := 0; i+1 < len(base); i++ {
		h := cp(base)
		h[i], h[i+1] = h[i+1], h[i]
		out = append(out, h)
	}
	for i := range base {
		out = append(out, append(cp(base[:i]), base[i+1:]...))
	}
	return out
}

func main() {
	r = ev.Start("C10", "model_checking")
	if len(os.Args) > 2 && os.Args[1] == "--replay" {
		b, _ := os.ReadFile(os.Args[2])
		var art struct {
			Replay scenario `json:"replay"`
		}
		if json.Unmarshal(b, &art) != nil {
			ev.Broken("bad artefact")
		}
		fmt.Println(run(art.Replay, art.Replay.Steps, true), r.Violations(), "violations")
		if r.Violations() > 0 {
			os.Exit(1)
		}
		os.Exit(0)
	}
	bs := bases()
	si, sn, worker := ev.Shard()
	if !worker {
		r.Set("base_scenarios", len(bs))
		productionConfig()
		guardianSets()
		r.Fork(0, nil, r.CrashViolation)
		r.Set("rule", "states = executions of the real watcher, transitions = stimuli; histories are not merged (poller and subscription state are goroutine-local); every history within the edit bound around every base scenario is run in full, followed by the fair closing schedule (head + level+1 and a poll, then three times head +1 and a poll)")
		r.Assume("the simulated node applies the subscription filter as a real node does (only logs matching address and topic are pushed); receipts carry all logs of the transaction")
		r.Assume("one stimulus at a time; the 15 s guardian-set ticker is never fired")
		r.Finish()
		return
	}
	t0 := time.Now()
	for bi, sc := range bs {
		if bi%sn != si || bi < ev.Resume() {
			continue
		}
		curItem = bi
		if bi == si {
			if a, b := run(sc, sc.Steps, false), run(sc, sc.Steps, false); a != b {
				ev.Broken("determinism self-test failed: %s vs %s", a, b)
			}
		}
		res := run(sc, sc.Steps, true)
		if bi/sn < 1 {
			r.Sample(map[string]interface{}{"base": sc.Name, "polling_forwards": res})
		}
		// slow-node scenarios are not edited: an edit can let ONE answer take longer than the watcher's deadline,
		// which the watcher cannot tell from a node that failed to confirm (outside the statement)
		// transactions with several messages are always expanded (an RPC fault at the head at which both are ready)
		multi := strings.HasPrefix(sc.Name, "two-levels-one-tx/") || strings.HasPrefix(sc.Name, "two-txs/") || strings.HasPrefix(sc.Name, "same-level-one-tx/")
		if (r.Thorough() || bi%3 == 0 || multi) && !strings.HasPrefix(sc.Name, "slow-node/") {
			for _, h := range edits1(sc.Steps, menu()) {
				run(sc, h, true)
			}
		}
		if !strings.HasPrefix(sc.Name, "slow-node/") && (r.Thorough() || bi%2 == 0 || multi || strings.HasPrefix(sc.Name, "second-after-first")) {
			logVariants(sc)
		}
	}
	r.Add("goroutine_delay_runs", logRuns)
	r.Add("states", executions)
	r.Add("transitions", stimuli)
	r.Add("traces_validated_against_impl", executions)
	r.Add("forwards_judged", forwards)
	if os.Getenv("VERIF_VERBOSE") != "" {
		fmt.Fprintf(os.Stderr, "shard %d: %d executions %d stimuli %.1fs\n", si, executions, stimuli, time.Since(t0).Seconds())
	}
	r.Finish()
}
