// C18: supervised services restart after failure and never run twice at once.
// Explicit-state search over event histories of the real supervisor (supervisor.New, RunGroup,
// Signal, the real processor loop with its GC and back-off) with scripted services that park on a
// harness channel and execute one command at a time. The GC ticker and the back-off sleep are on the
// virtual clock; one stimulus at a time, quiescence by goroutine-state inspection.
package main

import (
	"context"
	"encoding/json"
	"errors"
	"fmt"
	"os"
	"os/exec"
	"sort"
	"strings"
	"sync"
	"time"

	"github.com/alephium/wormhole-fork/node/pkg/supervisor"
	"github.com/alephium/wormhole-fork/node/verifh/ev"
	"github.com/alephium/wormhole-fork/node/verifh/mc"
	"github.com/alephium/wormhole-fork/node/verifh/quiesce"
	"github.com/alephium/wormhole-fork/node/verifh/vtime"
	"go.uber.org/zap"
)

var r *ev.Run

// ---- tree specification
type svc struct {
	DN     string     `json:"dn"`
	Groups [][]string `json:"groups"` // names of children, by supervision group
	Done   bool       `json:"done"`   // signals Done and returns nil after setup instead of serving
}

type config struct {
	Name     string `json:"name"`
	Services []svc  `json:"services"`
	NoPanic  bool   `json:"propagate_panic"` // run with WithPropagatePanic: no panic scripts
	Wide     bool   `json:"wide,omitempty"`  // one group with many members: explored to depth 3 from scratch only
}

func (c *config) spec(dn string) *svc {
	for i := range c.Services {
		if c.Services[i].DN == dn {
			return &c.Services[i]
		}
	}
	return nil
}

// ---- a running instance of a scripted service
type instance struct {
	dn     string
	inc    int
	ctx    context.Context
	cmd    chan string
	phase  int    // number of setup actions performed (groups run, then healthy, then done)
	status string // setup | healthy | exited
	how    string // how it exited
	stuck  bool   // did not take a command although everything was quiescent: parked inside a supervisor call
}

type sys struct {
	cfg       *config
	cancel    context.CancelFunc
	cancelled bool
	mu        sync.Mutex
	live      map[string][]*instance // running instances per dn (the property: never more than one)
	incs      map[string]int
	all       []*instance
	dead      bool
	dirty     bool
	lastExit  map[string]string
	alphabet  []string
	bad       []string // violations raised inside service goroutines, reported by the next Apply
	backoffs  []time.Duration
	sup       *supervisor.VerifSupervisor
	sinceGC   []string          // tree events since the last GC tick (what the next restart scan has to look at)
	failedAt  map[string][2]int // dn -> (sleeper releases, parent incarnation) at the time it failed with a live context
	releases  int
}

func (s *sys) body(dn string) supervisor.Runnable {
	return func(ctx context.Context) error {
		s.mu.Lock()
		s.incs[dn]++
		in := &instance{dn: dn, inc: s.incs[dn], ctx: ctx, cmd: make(chan string), status: "setup"}
		s.live[dn] = append(s.live[dn], in)
		s.all = append(s.all, in)
		if len(s.live[dn]) > 1 {
			s.bad = append(s.bad, fmt.Sprintf("two instances of service %s run at the same time (incarnations %d and %d)", dn, s.live[dn][0].inc, in.inc))
		}
		if s.cancelled {
			s.bad = append(s.bad, "service "+dn+" was started after the supervisor's context was cancelled")
		}
		if at, ok := s.failedAt[dn]; ok {
			// the service's OWN node was rescheduled (its parent instance is still the one that was running when
			// it failed - otherwise the parent was restarted and re-created it, which needs no back-off) and no
			// back-off sleeper has been released since the failure
			if at[0] == s.releases && at[1] == s.incs[parentOf(dn)] {
				s.bad = append(s.bad, "service "+dn+" was restarted after a failure without any back-off")
			}
			delete(s.failedAt, dn)
		}
		s.mu.Unlock()
		exit := func(how string) {
			s.mu.Lock()
			in.status, in.how = "exited", how
			s.lastExit[dn] = how
			l := s.live[dn]
			for i, x := range l {
				if x == in {
					s.live[dn] = append(append([]*instance{}, l[:i]...), l[i+1:]...)
				}
			}
			s.mu.Unlock()
		}
		spec := s.cfg.spec(dn)
		for {
			c := <-in.cmd
			switch {
			case strings.HasPrefix(c, "run:"):
				var k int
				fmt.Sscanf(c, "run:%d", &k)
				g := map[string]supervisor.Runnable{}
				for _, name := range spec.Groups[k] {
					g[name] = s.body(dn + "." + name)
				}
				if err := supervisor.RunGroup(ctx, g); err != nil {
					exit("rungroup-error")
					return fmt.Errorf("rungroup: %w", err)
				}
				in.phase++
			case c == "healthy":
				supervisor.Signal(ctx, supervisor.SignalHealthy)
				s.mu.Lock()
				in.status = "healthy"
				s.mu.Unlock()
				in.phase++
			case c == "done":
				supervisor.Signal(ctx, supervisor.SignalDone)
				exit("done")
				return nil
			case c == "err":
				exit("err")
				return errors.New("scripted failure")
			case c == "nil":
				exit("nil")
				return nil
			case c == "ctxerr":
				// a failure whose error unwraps to context.Canceled although the supervisor never cancelled this
				// service (an internal sub-context it cancelled itself)
				exit("ctxerr")
				return fmt.Errorf("internal operation: %w", context.Canceled)
			case c == "panic":
				exit("panic")
				panic("scripted panic")
			case c == "missignal":
				// a service that signals healthy a second time: the supervisor's own API panics (by design) in
				// the service's goroutine - one more way for a service to fail
				exit("missignal")
				supervisor.Signal(ctx, supervisor.SignalHealthy)
				return errors.New("unreachable: Signal must have panicked")
			case c == "notice":
				exit("cancelled")
				return ctx.Err()
			}
		}
	}
}

func parentOf(dn string) string {
	if i := strings.LastIndex(dn, "."); i > 0 {
		return dn[:i]
	}
	return ""
}

func ignore(g quiesce.Goroutine) bool {
	return !(g.Has("pkg/supervisor.") || g.Has("verifh/C18.") || g.Has("verifh/vtime."))
}

func newSys(cfg *config) *sys {
	vtime.ResetClock(time.Unix(1_700_000_000, 0))
	s := &sys{cfg: cfg, live: map[string][]*instance{}, incs: map[string]int{}, lastExit: map[string]string{}, failedAt: map[string][2]int{}}
	ctx, cancel := context.WithCancel(context.Background())
	s.cancel = cancel
	var opts []supervisor.SupervisorOpt
	if cfg.NoPanic {
		opts = append(opts, supervisor.WithPropagatePanic)
	}
	// alphabet
	for _, sv := range cfg.Services {
		s.alphabet = append(s.alphabet, "step:"+sv.DN)
	}
	for _, sv := range cfg.Services {
		for _, k := range []string{"err", "nil", "panic", "ctxerr", "missignal"} {
			if (k == "panic" || k == "missignal") && cfg.NoPanic {
				continue
			}
			s.alphabet = append(s.alphabet, "fail:"+sv.DN+":"+k)
		}
		s.alphabet = append(s.alphabet, "notice:"+sv.DN)
		if sv.Done {
			// a one-shot service whose context was cancelled (an ancestor or group member died) finishes its work
			// anyway: signals Done and returns nil instead of returning the context's error
			s.alphabet = append(s.alphabet, "finish:"+sv.DN)
		}
	}
	s.alphabet = append(s.alphabet, "gc", "release", "cancel")
	s.sup = supervisor.New(ctx, zap.NewNop(), s.body("root"), opts...)
	s.quiesce()
	return s
}

func (s *sys) quiesce() {
	if _, ok := quiesce.Wait(quiesce.Options{Ignore: ignore, Activity: vtime.Activity}); !ok {
		ev.Broken("supervisor does not become quiescent")
	}
}

func (s *sys) Dead() bool { return s.dead }

func (s *sys) Close() {
	// end every goroutine of this instance: cancel, let every instance notice
	s.cancel()
	s.cancelled = true
	for round := 0; round < 50; round++ {
		s.quiesce()
		any := false
		for _, in := range s.running() {
			if s.tell(in, "notice") {
				any = true
			}
		}
		for _, w := range vtime.Find("sleep", "") {
			w.Fire()
			any = true
		}
		if s.sup.VerifDrain() > 0 {
			any = true
		}
		if !any {
			break
		}
	}
	gs, _ := quiesce.Wait(quiesce.Options{Ignore: ignore, Activity: vtime.Activity})
	left := 0
	for _, g := range gs {
		if g.Has("pkg/supervisor.") {
			left++
		}
	}
	if left > 0 {
		r.Add("leaked_goroutines_after_close", left)
	}
}

func (s *sys) running() []*instance {
	s.mu.Lock()
	defer s.mu.Unlock()
	var out []*instance
	for _, in := range s.all {
		if in.status != "exited" && !in.stuck {
			out = append(out, in)
		}
	}
	return out
}

// tell hands one command to a service. Everything is quiescent when it is called, so a service that is
// waiting for a command takes it at once; one that does not is parked inside a supervisor call (RunGroup,
// Signal) that did not return - the supervisor is wedged.
func (s *sys) tell(in *instance, c string) bool {
	select {
	case in.cmd <- c:
		return true
	default:
	}
	wedges++
	s.mu.Lock()
	in.stuck = true
	s.bad = append(s.bad, "service "+in.dn+" is parked inside a supervisor call that does not return (the supervisor is wedged)")
	s.mu.Unlock()
	s.dead = true
	return false
}

// current returns the newest running instance of dn (nil if none).
func (s *sys) current(dn string) *instance {
	var out *instance
	for _, in := range s.running() {
		if in.dn == dn {
			out = in
		}
	}
	return out
}

func nextSetup(sp *svc, in *instance) string {
	switch {
	case in.phase < len(sp.Groups):
		return fmt.Sprintf("run:%d", in.phase)
	case in.phase == len(sp.Groups):
		return "healthy"
	case in.phase == len(sp.Groups)+1 && sp.Done:
		return "done"
	}
	return ""
}

// wedges counts supervisors found wedged in this worker. Their goroutines can never end (they wait for a lock
// that is never released), so every further one makes goroutine inspection slower: after 25 the worker stops
// offering events (the violation has been reported 25 times by then; a cap is recorded).
var wedges int

func (s *sys) Enabled() []int {
	if wedges > 25 {
		if wedges < 1000000 {
			wedges = 1000000
			r.Cap("the supervisor was found wedged 25 times; the rest of this worker's exploration was cut short")
		}
		return nil
	}
	var out []int
	for i, a := range s.alphabet {
		p := strings.Split(a, ":")
		switch p[0] {
		case "step":
			if in := s.current(p[1]); in != nil && in.ctx.Err() == nil && nextSetup(s.cfg.spec(p[1]), in) != "" {
				out = append(out, i)
			}
		case "fail":
			if in := s.current(p[1]); in != nil && in.ctx.Err() == nil && in.status == "healthy" && nextSetup(s.cfg.spec(p[1]), in) == "" {
				out = append(out, i)
			}
		case "notice":
			for _, in := range s.running() {
				if in.dn == p[1] && in.ctx.Err() != nil {
					out = append(out, i)
					break
				}
			}
		case "finish":
			for _, in := range s.running() {
				if in.dn == p[1] && in.ctx.Err() != nil && nextSetup(s.cfg.spec(p[1]), in) == "done" {
					out = append(out, i)
					break
				}
			}
		case "gc":
			if !s.cancelled {
				out = append(out, i)
			}
		case "release":
			if len(vtime.Find("sleep", "")) > 0 {
				out = append(out, i)
			}
		case "cancel":
			if !s.cancelled {
				out = append(out, i)
			}
		}
	}
	return out
}

func (s *sys) viol(key, what string, hist []int) {
	var pretty []string
	for _, i := range hist {
		pretty = append(pretty, s.alphabet[i])
	}
	r.Violation(key, what+"  history: "+strings.Join(pretty, " ")+"  [tree "+s.cfg.Name+"]", map[string]interface{}{"config": s.cfg, "history": hist, "events": pretty})
}

func (s *sys) do(a string) {
	p := strings.Split(a, ":")
	switch p[0] {
	case "step":
		in := s.current(p[1])
		s.tell(in, nextSetup(s.cfg.spec(p[1]), in))
	case "fail":
		s.mu.Lock()
		s.failedAt[p[1]] = [2]int{s.releases, s.incs[parentOf(p[1])]}
		s.mu.Unlock()
		s.tell(s.current(p[1]), p[2])
	case "notice":
		for _, in := range s.running() {
			if in.dn == p[1] && in.ctx.Err() != nil {
				s.tell(in, "notice")
				break
			}
		}
	case "finish":
		for _, in := range s.running() {
			if in.dn == p[1] && in.ctx.Err() != nil && nextSetup(s.cfg.spec(p[1]), in) == "done" {
				s.tell(in, "done")
				break
			}
		}
	case "gc":
		for _, w := range vtime.Find("ticker", "processor") {
			w.Fire()
		}
		s.dirty = false
		s.sinceGC = nil
	case "release":
		s.mu.Lock()
		s.releases++
		s.mu.Unlock()
		for _, w := range vtime.Find("sleep", "") {
			s.backoffs = append(s.backoffs, w.Period)
			w.Fire()
		}
	case "cancel":
		s.cancel()
		s.cancelled = true
	}
	if p[0] != "gc" {
		s.dirty = true
		s.sinceGC = append(s.sinceGC, a)
	}
	s.quiesce()
}

func (s *sys) Apply(ei int, hist []int, check bool) {
	a := s.alphabet[ei]
	p := strings.Split(a, ":")
	var sibs []*instance
	if p[0] == "fail" && check {
		// group members of the failing service, to be checked for cancellation right after the death is processed
		dn := p[1]
		if i := strings.LastIndex(dn, "."); i > 0 {
			parent, name := dn[:i], dn[i+1:]
			for _, g := range s.cfg.spec(parent).Groups {
				in := false
				for _, n := range g {
					in = in || n == name
				}
				if in {
					for _, n := range g {
						if n != name {
							if x := s.current(parent + "." + n); x != nil {
								sibs = append(sibs, x)
							}
						}
					}
				}
			}
		}
		// its own children too
		for _, x := range s.running() {
			if strings.HasPrefix(x.dn, dn+".") {
				sibs = append(sibs, x)
			}
		}
	}
	if check {
		var pretty []string
		for _, i := range hist {
			pretty = append(pretty, s.alphabet[i])
		}
		ev.Journal(map[string]interface{}{"config": s.cfg, "history": hist, "events": pretty})
	}
	s.do(a)
	if !check {
		s.bad = nil
		return
	}
	s.mu.Lock()
	bad := s.bad
	s.bad = nil
	s.mu.Unlock()
	for _, b := range bad {
		key := b
		if i := strings.Index(key, " (incarnations"); i > 0 {
			key = key[:i]
		}
		// generalise the dn out of the key
		for _, sv := range s.cfg.Services {
			key = strings.ReplaceAll(key, " "+sv.DN+" ", " <dn> ")
		}
		s.dead = true
		s.viol(key, b, hist)
	}
	for _, x := range sibs {
		if x.ctx.Err() == nil && x.status != "exited" {
			s.viol("a failed service's group member or child was not cancelled when the death was recorded", x.dn, hist)
		}
	}
	for _, b := range s.backoffs {
		if b <= 0 || b > 90*time.Second {
			s.viol("restart back-off outside (0, 90 s]", b.String(), hist)
		}
	}
	s.backoffs = nil
}

func (s *sys) Key() string {
	var ks []string
	s.mu.Lock()
	for _, sv := range s.cfg.Services {
		inc := s.incs[sv.DN]
		if inc > 3 {
			inc = 3
		}
		var st []string
		for _, in := range s.live[sv.DN] {
			st = append(st, fmt.Sprintf("%s/%d/cancelled=%v", in.status, in.phase, in.ctx.Err() != nil))
		}
		ks = append(ks, fmt.Sprintf("%s#%d[%s]last=%s", sv.DN, inc, strings.Join(st, ","), s.lastExit[sv.DN]))
	}
	s.mu.Unlock()
	// the supervisor's own "something changed since the last scan" flag is a local variable of its loop: the
	// key carries what it can depend on - the (last four) tree events since the last GC tick
	pend := s.sinceGC
	if len(pend) > 4 {
		pend = pend[len(pend)-4:]
	}
	return fmt.Sprintf("%s|sleepers=%d|since-gc=%s|cancelled=%v", strings.Join(ks, ";"), len(vtime.Find("sleep", "")), strings.Join(pend, ","), s.cancelled)
}

// closing: fair schedule. With the context live every service of the tree must end up running
// (healthy, or done-and-returned for Done services); after a cancel every instance must exit and
// nothing may start.
func closing(cfg *config) func(mc.Sys, []int) {
	return func(ms mc.Sys, hist []int) {
		s := ms.(*sys)
		if s.dead {
			return
		}
		r.Add("closing_schedules", 1)
		for round := 0; round < 40; round++ {
			progressed := false
			for _, in := range s.running() {
				if in.ctx.Err() != nil {
					s.tell(in, "notice")
					s.quiesce()
					progressed = true
				}
			}
			if !s.cancelled {
				for _, w := range vtime.Find("ticker", "processor") {
					w.Fire()
				}
				s.quiesce()
			}
			if ws := vtime.Find("sleep", ""); len(ws) > 0 {
				s.mu.Lock()
				s.releases++
				s.mu.Unlock()
				for _, w := range ws {
					w.Fire()
				}
				s.quiesce()
				progressed = true
			}
			for _, sv := range cfg.Services {
				if in := s.current(sv.DN); in != nil && in.ctx.Err() == nil {
					if c := nextSetup(&sv, in); c != "" {
						s.tell(in, c)
						s.quiesce()
						progressed = true
					}
				}
			}
			s.mu.Lock()
			nbad := len(s.bad)
			s.mu.Unlock()
			if nbad > 0 || (!progressed && round > 2) {
				break
			}
		}
		s.mu.Lock()
		bad := s.bad
		s.bad = nil
		s.mu.Unlock()
		for _, b := range bad {
			key := b
			if i := strings.Index(key, " (incarnations"); i > 0 {
				key = key[:i]
			}
			for _, sv := range cfg.Services {
				key = strings.ReplaceAll(key, " "+sv.DN+" ", " <dn> ")
			}
			s.viol(key, b+" (in the fair closing schedule)", hist)
			return
		}
		if s.cancelled {
			if n := len(s.running()); n > 0 {
				s.viol("after the supervisor's context was cancelled an instance keeps running although every service noticed the cancellation", fmt.Sprint(n), hist)
			}
			return
		}
		for _, sv := range cfg.Services {
			in := s.current(sv.DN)
			ok := in != nil && in.status == "healthy" && in.ctx.Err() == nil
			if sv.Done {
				ok = in == nil && s.lastExit[sv.DN] == "done"
			}
			if !ok {
				st := "not running"
				if in != nil {
					st = fmt.Sprintf("%s, cancelled=%v", in.status, in.ctx.Err() != nil)
				}
				s.viol("a service is not running again after the fair closing schedule although the supervisor's context is live", fmt.Sprintf("%s: %s, last exit %q", sv.DN, st, s.lastExit[sv.DN]), hist)
				return
			}
		}
	}
}

func configs() []config {
	S := func(dn string, done bool, groups ...[]string) svc { return svc{DN: dn, Groups: groups, Done: done} }
	g := func(n ...string) []string { return n }
	out := []config{
		{Name: "root-a", Services: []svc{S("root", false, g("a")), S("root.a", false)}},
		{Name: "root-a|b", Services: []svc{S("root", false, g("a"), g("b")), S("root.a", false), S("root.b", false)}},
		{Name: "root-(a,b)", Services: []svc{S("root", false, g("a", "b")), S("root.a", false), S("root.b", false)}},
		{Name: "root-a-b", Services: []svc{S("root", false, g("a")), S("root.a", false, g("b")), S("root.a.b", false)}},
		{Name: "root-a-(b,c)", Services: []svc{S("root", false, g("a")), S("root.a", false, g("b", "c")), S("root.a.b", false), S("root.a.c", false)}},
		{Name: "root-(a,b)-a-c", Services: []svc{S("root", false, g("a", "b")), S("root.a", false, g("c")), S("root.b", false), S("root.a.c", false)}},
		{Name: "root-a|b-a-c", Services: []svc{S("root", false, g("a"), g("b")), S("root.a", false, g("c")), S("root.b", false), S("root.a.c", false)}},
		{Name: "root-a(done)|b", Services: []svc{S("root", false, g("a"), g("b")), S("root.a", true), S("root.b", false)}},
		{Name: "root-(a(done),b)", Services: []svc{S("root", false, g("a", "b")), S("root.a", true), S("root.b", false)}},
		{Name: "root(done)-a-b", Services: []svc{S("root", true, g("a")), S("root.a", false, g("b")), S("root.a.b", false)}},
		{Name: "root-a(done)-b", Services: []svc{S("root", false, g("a")), S("root.a", true, g("b")), S("root.a.b", false)}},
		{Name: "root-a-b(done)", Services: []svc{S("root", false, g("a")), S("root.a", false, g("b")), S("root.a.b", true)}},
		{Name: "root-a-(b(done),c)", Services: []svc{S("root", false, g("a")), S("root.a", false, g("b", "c")), S("root.a.b", true), S("root.a.c", false)}},
	}
	np := out[3]
	np.Name, np.NoPanic = "root-a-b/propagate-panic", true
	out = append(out, np)
	// a probe service and then ONE group with many members (more than any small queue between the services
	// and the supervisor's processor)
	for _, width := range []int{17, 24, 40} {
		var names []string
		svcs := []svc{{DN: "root"}}
		for i := 0; i < width; i++ {
			n := fmt.Sprintf("m%02d", i)
			names = append(names, n)
			svcs = append(svcs, S("root."+n, false))
		}
		svcs[0] = S("root", false, g("probe"), names)
		svcs = append(svcs, S("root.probe", false))
		out = append(out, config{Name: fmt.Sprintf("root-probe|(group of %d)", width), Services: svcs, Wide: true})
	}
	return out
}

func main() {
	r = ev.Start("C18", "model_checking")
	cfgs := configs()
	if len(os.Args) > 2 && os.Args[1] == "--replay" {
		replay(os.Args[2])
		return
	}
	if os.Getenv("VERIF_RACE_RUN") != "" {
		racePass()
		return
	}
	si, sn, worker := ev.Shard()
	if !worker {
		r.Fork(len(cfgs), nil, r.CrashViolation)
		if exe := os.Getenv("VERIF_RACE_EXE"); exe != "" {
			rctx, rcancel := context.WithTimeout(context.Background(), 5*time.Minute) // harness safety only
			cmd := exec.CommandContext(rctx, exe)
			cmd.Env = append(os.Environ(), "VERIF_RACE_RUN=1", "GOMAXPROCS=8", "GORACE=halt_on_error=0")
			out, _ := cmd.CombinedOutput()
			if rctx.Err() != nil {
				r.Cap("free-running -race pass was cut off after 5 minutes")
			}
			rcancel()
			n := strings.Count(string(out), "WARNING: DATA RACE")
			r.Set("race_pass_reports", n)
			if n > 0 {
				i := strings.Index(string(out), "WARNING: DATA RACE")
				j := i + 1500
				if j > len(out) {
					j = len(out)
				}
				r.Violation("data race in the supervisor (free-running -race pass)", string(out[i:j]), nil)
			}
		}
		r.Set("rule", "state key = per service (incarnations capped at 3, status / setup phase / cancelled flag of every running instance, last exit kind), pending back-off sleepers, GC-dirty estimate, supervisor cancelled; transitions = commands to scripted services, GC tick, release of back-off sleepers, cancel; judged after quiescence")
		r.Assume("back-off sleepers that are pending together are released together (the map iteration order of the restart loop makes an individual choice unreplayable)")
		r.Assume("tree shapes: root plus up to 3 services, depth <= 3, groups of size 1 or 2, with and without Done services")
		r.Finish()
		return
	}
	depth := r.Pick(6, 8)
	for i := range cfgs {
		if i%sn != si {
			continue
		}
		c := &cfgs[i]
		t0 := time.Now()
		// (a) from scratch: failures and cancellation during start-up
		d0 := r.Pick(6, 8)
		if c.Wide {
			d0 = 3
		}
		st0 := mc.BFS(func() mc.Sys { return newSys(c) }, nil, d0, r.Pick(6000, 60000), closing(c))
		r.Add("states", st0.States)
		r.Add("transitions", st0.Transitions)
		r.Add("traces_validated_against_impl", st0.Builds)
		if c.Wide {
			continue
		}
		// (b) from the non-initial state in which the whole tree is up (fair start-up prefix)
		var prefix []int
		{
			s := newSys(c)
			for {
				stepped := false
				for _, e := range s.Enabled() {
					if strings.HasPrefix(s.alphabet[e], "step:") {
						prefix = append(prefix, e)
						s.Apply(e, prefix, false)
						stepped = true
						break
					}
				}
				if !stepped {
					break
				}
			}
			s.Close()
		}
		st := mc.BFS(func() mc.Sys { return newSys(c) }, prefix, depth, r.Pick(8000, 80000), closing(c))
		r.Add("states", st.States)
		r.Add("transitions", st.Transitions)
		r.Add("traces_validated_against_impl", st.Builds)
		if st.Capped {
			r.Cap(fmt.Sprintf("state cap in %s (BFS complete to depth %d)", c.Name, st.MaxDepth-1))
		}
		// (c) trees with one-shot services: from the state in which everything is up and the one-shot services
		// are healthy but still busy (their Done is the next step)
		hasDone := false
		for _, sv := range c.Services {
			hasDone = hasDone || sv.Done
		}
		if hasDone {
			var busy []int
			s := newSys(c)
			for {
				stepped := false
				for _, e := range s.Enabled() {
					a := s.alphabet[e]
					if strings.HasPrefix(a, "step:") {
						dn := a[5:]
						if nextSetup(c.spec(dn), s.current(dn)) == "done" {
							continue
						}
						busy = append(busy, e)
						s.Apply(e, busy, false)
						stepped = true
						break
					}
				}
				if !stepped {
					break
				}
			}
			s.Close()
			stc := mc.BFS(func() mc.Sys { return newSys(c) }, busy, r.Pick(5, 7), r.Pick(8000, 80000), closing(c))
			r.Add("states", stc.States)
			r.Add("transitions", stc.Transitions)
			r.Add("traces_validated_against_impl", stc.Builds)
			if os.Getenv("VERIF_VERBOSE") != "" {
				fmt.Fprintf(os.Stderr, "%s busy-prefix=%v states=%d transitions=%d maxdepth=%d capped=%v\n", c.Name, busy, stc.States, stc.Transitions, stc.MaxDepth, stc.Capped)
			}
			if stc.Capped {
				r.Cap(fmt.Sprintf("state cap in %s, busy one-shot prefix (BFS complete to depth %d)", c.Name, stc.MaxDepth-1))
			}
		}
		r.Sample(map[string]interface{}{"tree": c.Name, "depth": depth, "max_depth_reached": st.MaxDepth, "states": st.States, "transitions": st.Transitions})
		if os.Getenv("VERIF_VERBOSE") != "" {
			fmt.Fprintf(os.Stderr, "%s depth=%d(max %d) states=%d transitions=%d builds=%d capped=%v %.1fs\n", c.Name, depth, st.MaxDepth, st.States, st.Transitions, st.Builds, st.Capped, time.Since(t0).Seconds())
		}
	}
	r.Finish()
}

// racePass: free-running supervisor with failing services (virtual clock auto-fired), only DATA RACE reports count.
func racePass() {
	stop := make(chan struct{})
	go func() {
		for {
			select {
			case <-stop:
				return
			default:
			}
			for _, w := range vtime.Waiters() {
				w.Fire()
			}
			time.Sleep(200 * time.Microsecond)
		}
	}()
	for round := 0; round < 30; round++ {
		ctx, cancel := context.WithCancel(context.Background())
		n := 0
		var mu sync.Mutex
		leaf := func(fail bool) supervisor.Runnable {
			return func(ctx context.Context) error {
				supervisor.Signal(ctx, supervisor.SignalHealthy)
				mu.Lock()
				n++
				k := n
				mu.Unlock()
				if fail && k%2 == 0 {
					return errors.New("x")
				}
				<-ctx.Done()
				return ctx.Err()
			}
		}
		supervisor.New(ctx, zap.NewNop(), func(ctx context.Context) error {
			supervisor.RunGroup(ctx, map[string]supervisor.Runnable{"a": leaf(true), "b": leaf(false)})
			supervisor.Run(ctx, "c", func(ctx context.Context) error {
				supervisor.Run(ctx, "d", leaf(true))
				supervisor.Signal(ctx, supervisor.SignalHealthy)
				<-ctx.Done()
				return ctx.Err()
			})
			supervisor.Signal(ctx, supervisor.SignalHealthy)
			<-ctx.Done()
			return ctx.Err()
		})
		time.Sleep(20 * time.Millisecond)
		cancel()
		time.Sleep(5 * time.Millisecond)
	}
	close(stop)
	os.Exit(0)
}

func replay(path string) {
	b, err := os.ReadFile(path)
	if err != nil {
		ev.Broken("%v", err)
	}
	var art struct {
		Replay struct {
			Config  config `json:"config"`
			History []int  `json:"history"`
		} `json:"replay"`
	}
	if err := json.Unmarshal(b, &art); err != nil {
		ev.Broken("%v", err)
	}
	s := newSys(&art.Replay.Config)
	for i, e := range art.Replay.History {
		s.Apply(e, art.Replay.History[:i+1], true)
	}
	closing(&art.Replay.Config)(s, art.Replay.History)
	fmt.Printf("replayed: %d violations\n", r.Violations())
	if r.Violations() > 0 {
		os.Exit(1)
	}
	os.Exit(0)
}

var _ = sort.Strings
