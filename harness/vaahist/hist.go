// Package vaahist: operation histories on ONE VAA object. The digest, the encoding and the verification verdict
// are functions of the VAA's current field values alone - not of what was computed on that object (or on the
// object it was copied from) earlier. Every sequence of up to `depth` operations over
//
//	reads    SigningMsg, HexDigest, SerializeBody, Marshal, MessageID, VerifySignatures
//	writes   assign Sequence / Payload / Nonce / Timestamp / EmitterChain / TargetChain / EmitterAddress /
//	         ConsistencyLevel / GuardianSetIndex, flip a payload byte in place, AddSignature, drop the signatures
//	moves    continue with a by-value copy of the struct, continue with Unmarshal(Marshal(v))
//
// is executed on the real type; every read is compared with the same read on a FRESH object built from the
// exported fields only (what a reader of the struct sees) and with an independent encoder / double keccak;
// every byte slice a read returned is kept and must still hold the same bytes at the end of the history.
// Serves C04 (digest), C05 (encoding) and C06 (verification verdict).
package vaahist

import (
	"bytes"
	"encoding/binary"
	"encoding/hex"
	"fmt"
	"reflect"
	"strings"
	"sync"
	"sync/atomic"
	"time"

	"github.com/alephium/wormhole-fork/node/pkg/vaa"
	"github.com/alephium/wormhole-fork/node/verifh/ev"
	"github.com/alephium/wormhole-fork/node/verifh/keys"
	"github.com/alephium/wormhole-fork/node/verifh/mc"
	"github.com/ethereum/go-ethereum/common"
	"github.com/ethereum/go-ethereum/crypto"
)

func ownBody(v *vaa.VAA) []byte {
	var f [53]byte
	binary.BigEndian.PutUint32(f[0:], uint32(v.Timestamp.Unix()))
	binary.BigEndian.PutUint32(f[4:], v.Nonce)
	binary.BigEndian.PutUint16(f[8:], uint16(v.EmitterChain))
	binary.BigEndian.PutUint16(f[10:], uint16(v.TargetChain))
	copy(f[12:44], v.EmitterAddress[:])
	binary.BigEndian.PutUint64(f[44:], v.Sequence)
	f[52] = v.ConsistencyLevel
	return append(f[:], v.Payload...)
}

func ownEncode(v *vaa.VAA) []byte {
	b := []byte{v.Version, byte(v.GuardianSetIndex >> 24), byte(v.GuardianSetIndex >> 16), byte(v.GuardianSetIndex >> 8), byte(v.GuardianSetIndex), byte(len(v.Signatures))}
	for _, s := range v.Signatures {
		b = append(b, s.Index)
		b = append(b, s.Signature[:]...)
	}
	return append(b, ownBody(v)...)
}

func ownDigest(v *vaa.VAA) []byte { return crypto.Keccak256(crypto.Keccak256(ownBody(v))) }

// ownVerify: every signature recovers over the object's CURRENT digest to the address at its index, indices ascend.
func ownVerify(v *vaa.VAA, addrs []common.Address) bool {
	d := ownDigest(v)
	last := -1
	for _, s := range v.Signatures {
		if int(s.Index) >= len(addrs) || int(s.Index) <= last {
			return false
		}
		last = int(s.Index)
		pk, err := crypto.Ecrecover(d, s.Signature[:])
		if err != nil {
			return false
		}
		if common.BytesToAddress(crypto.Keccak256(pk[1:])[12:]) != addrs[s.Index] {
			return false
		}
	}
	return true
}

// fresh builds a new object from the exported fields of v only (deep copies of slices): what the object IS for
// anyone who can see it. Unexported fields (caches a change may add) start at their zero value.
func fresh(v *vaa.VAA) *vaa.VAA {
	n := &vaa.VAA{}
	sv, dv := reflect.ValueOf(v).Elem(), reflect.ValueOf(n).Elem()
	for i := 0; i < sv.NumField(); i++ {
		if sv.Type().Field(i).PkgPath != "" { // unexported
			continue
		}
		dv.Field(i).Set(sv.Field(i))
	}
	n.Payload = append([]byte(nil), v.Payload...)
	n.Signatures = nil
	for _, s := range v.Signatures {
		c := *s
		n.Signatures = append(n.Signatures, &c)
	}
	return n
}

func initial() *vaa.VAA {
	v := &vaa.VAA{Version: 1, GuardianSetIndex: 3, Timestamp: time.Unix(1700000000, 0), Nonce: 7, Sequence: 100, ConsistencyLevel: 1, EmitterChain: 2, TargetChain: 255}
	v.EmitterAddress[31] = 0x42
	v.Payload = []byte{1, 2, 3, 4, 5}
	return v
}

var addrs = []common.Address{keys.Addr(0), keys.Addr(1), keys.Addr(2)}

type op struct {
	name string
	read bool
	// run performs the op; for reads it returns (what the real object answered, what a fresh object and the
	// independent reference answer, retained byte slice or nil)
	run func(st *state) (got, want string, keep []byte)
}

type state struct{ v *vaa.VAA }

func hx(b []byte) string { return hex.EncodeToString(b) }

func ops() []op {
	rd := func(name string, f func(v *vaa.VAA) (string, []byte), ref func(v *vaa.VAA) string) op {
		return op{name: name, read: true, run: func(st *state) (string, string, []byte) {
			fr := fresh(st.v)
			want, _ := f(fr)
			if ref != nil {
				if w2 := ref(fr); w2 != want {
					want = w2 // the independent reference decides; a fresh object that is wrong is a plain codec bug
				}
			}
			got, keep := f(st.v)
			return got, want, keep
		}}
	}
	wr := func(name string, f func(st *state)) op {
		return op{name: name, run: func(st *state) (string, string, []byte) { f(st); return "", "", nil }}
	}
	return []op{
		rd("SigningMsg", func(v *vaa.VAA) (string, []byte) { d := v.SigningMsg(); return hx(d[:]), nil }, func(v *vaa.VAA) string { return hx(ownDigest(v)) }),
		rd("HexDigest", func(v *vaa.VAA) (string, []byte) { return v.HexDigest(), nil }, func(v *vaa.VAA) string { return hx(ownDigest(v)) }),
		rd("SerializeBody", func(v *vaa.VAA) (string, []byte) { b := v.SerializeBody(); return hx(b), b }, func(v *vaa.VAA) string { return hx(ownBody(v)) }),
		rd("Marshal", func(v *vaa.VAA) (string, []byte) {
			b, err := v.Marshal()
			if err != nil {
				return "error", nil
			}
			return hx(b), b
		}, func(v *vaa.VAA) string { return hx(ownEncode(v)) }),
		rd("MessageID", func(v *vaa.VAA) (string, []byte) { return v.MessageID(), nil }, nil),
		rd("VerifySignatures", func(v *vaa.VAA) (string, []byte) { return fmt.Sprint(v.VerifySignatures(addrs)), nil }, func(v *vaa.VAA) string { return fmt.Sprint(ownVerify(v, addrs)) }),
		wr("Sequence++", func(st *state) { st.v.Sequence++ }),
		wr("Payload=new", func(st *state) { st.v.Payload = append([]byte{9}, st.v.Payload...) }),
		wr("Payload[0]^=1", func(st *state) { st.v.Payload[0] ^= 1 }),
		wr("Nonce++", func(st *state) { st.v.Nonce++ }),
		wr("Timestamp+1s", func(st *state) { st.v.Timestamp = st.v.Timestamp.Add(time.Second) }),
		wr("EmitterChain=4", func(st *state) { st.v.EmitterChain ^= 6 }),
		wr("TargetChain=0", func(st *state) { st.v.TargetChain ^= 255 }),
		wr("EmitterAddress[0]^=1", func(st *state) { st.v.EmitterAddress[0] ^= 1 }),
		wr("ConsistencyLevel++", func(st *state) { st.v.ConsistencyLevel++ }),
		wr("GuardianSetIndex++", func(st *state) { st.v.GuardianSetIndex++ }),
		wr("AddSignature(next)", func(st *state) {
			if n := len(st.v.Signatures); n < len(addrs) {
				st.v.AddSignature(keys.Key(n), uint8(n))
			}
		}),
		wr("Signatures=nil", func(st *state) { st.v.Signatures = nil }),
		wr("copy struct", func(st *state) { c := *st.v; st.v = &c }),
		wr("Unmarshal(Marshal)", func(st *state) {
			b, err := st.v.Marshal()
			if err != nil {
				return
			}
			if d, err := vaa.Unmarshal(b); err == nil {
				st.v = d
			}
		}),
	}
}

// Explore runs every history of 1..depth operations. prop names the property in violation keys. Returns the
// number of histories executed.
func Explore(r *ev.Run, prop string, depth int) int {
	all := ops()
	n := len(all)
	total := 1
	for i := 0; i < depth; i++ {
		total *= n
	}
	var execs, reads int64
	var mu sync.Mutex
	reported := map[string]bool{}
	// histories are enumerated as base-n numbers of exactly `depth` digits; every read along a history is judged,
	// so every shorter history is covered as a prefix
	mc.ParallelFor(total, func(code int) {
		st := &state{v: initial()}
		type kept struct {
			live, snap []byte
			op         string
			at         int
		}
		var keeps []kept
		var names []string
		c := code
		for step := 0; step < depth; step++ {
			o := all[c%n]
			c /= n
			names = append(names, o.name)
			got, want, keep := o.run(st)
			if o.read {
				atomic.AddInt64(&reads, 1)
				if got != want {
					key := fmt.Sprintf("%s object history: %s answers for the object's earlier state, not for its current field values", prop, o.name)
					mu.Lock()
					if !reported[key] {
						reported[key] = true
						r.Violation(key, fmt.Sprintf("history %s: %s returned %.80s, a fresh object with the same exported fields gives %.80s", strings.Join(names, " ; "), o.name, got, want), map[string]interface{}{"history": append([]string{}, names...)})
					}
					mu.Unlock()
				}
				if keep != nil {
					keeps = append(keeps, kept{keep, append([]byte(nil), keep...), o.name, step})
				}
			}
		}
		for _, k := range keeps {
			if !bytes.Equal(k.live, k.snap) {
				key := fmt.Sprintf("%s object history: bytes returned by %s changed after a later operation (shared memory)", prop, k.op)
				mu.Lock()
				if !reported[key] {
					reported[key] = true
					r.Violation(key, fmt.Sprintf("history %s: result of step %d", strings.Join(names, " ; "), k.at+1), map[string]interface{}{"history": append([]string{}, names...)})
				}
				mu.Unlock()
			}
		}
		atomic.AddInt64(&execs, 1)
	})
	r.Add("object_histories", int(execs))
	r.Add("object_history_reads_judged", int(reads))
	r.Set("object_history_depth", fmt.Sprint(depth))
	r.Set("object_history_alphabet", fmt.Sprint(n))
	return int(execs)
}
