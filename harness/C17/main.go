// C17: re-observation requests are routed once per transaction and never block.
// Explicit-state search over request / clock-advance / drain histories against the real
// handleReobservationRequests goroutine (harness-owned clock implementing clock.Clock, unbuffered
// request channel so that every delivery is a rendezvous, per-chain queues of capacity 0/1/2).
// After every stimulus the harness waits for quiescence by goroutine-state inspection; the
// dispatcher must then be parked in its select - parked in a channel send is a decided blocking.
package main

import (
	"context"
	"encoding/hex"
	"encoding/json"
	"fmt"
	"os"
	"path/filepath"
	"regexp"
	"runtime"
	"sort"
	"strings"
	"sync"
	"time"

	"github.com/alephium/wormhole-fork/node/cmd/guardiand"
	"github.com/alephium/wormhole-fork/node/pkg/common"
	gossipv1 "github.com/alephium/wormhole-fork/node/pkg/proto/gossip/v1"
	nodev1 "github.com/alephium/wormhole-fork/node/pkg/proto/node/v1"
	"github.com/alephium/wormhole-fork/node/pkg/vaa"
	"github.com/alephium/wormhole-fork/node/verifh/ev"
	"github.com/alephium/wormhole-fork/node/verifh/mc"
	"github.com/alephium/wormhole-fork/node/verifh/quiesce"
	"github.com/alephium/wormhole-fork/node/verifh/wiring"
	"github.com/benbjohnson/clock"
)

var r *ev.Run

// ---- harness-owned clock
type hclock struct {
	mu      sync.Mutex
	now     time.Time
	tickers []*htick // tickers AND one-shot timers, in creation order
	reads   uint64
}

// htick is a ticker (period > 0) or a one-shot timer of the harness clock. It implements Stop and Reset for the
// clock library's Ticker / Timer structs (Verif field, added through the build overlay).
type htick struct {
	h       *hclock
	c       chan time.Time
	period  time.Duration
	next    time.Time
	stopped bool
	fn      func()
}

func (t *htick) Stop() bool {
	t.h.mu.Lock()
	defer t.h.mu.Unlock()
	was := !t.stopped
	t.stopped = true
	return was
}
func (t *htick) Reset(d time.Duration) bool {
	t.h.mu.Lock()
	defer t.h.mu.Unlock()
	was := !t.stopped
	if t.period > 0 {
		t.period = d
	}
	t.next, t.stopped = t.h.now.Add(d), false
	return was
}

func (h *hclock) add(d, period time.Duration, fn func()) *htick {
	h.mu.Lock()
	defer h.mu.Unlock()
	t := &htick{h: h, c: make(chan time.Time, 1), period: period, next: h.now.Add(d), fn: fn}
	h.tickers = append(h.tickers, t)
	return t
}

func (h *hclock) Now() time.Time {
	h.mu.Lock()
	defer h.mu.Unlock()
	h.reads++
	return h.now
}
func (h *hclock) Since(t time.Time) time.Duration { return h.Now().Sub(t) }
func (h *hclock) Until(t time.Time) time.Duration { return t.Sub(h.Now()) }
func (h *hclock) Ticker(d time.Duration) *clock.Ticker {
	t := h.add(d, d, nil)
	return &clock.Ticker{C: t.c, Verif: t}
}
func (h *hclock) Tick(d time.Duration) <-chan time.Time { return h.add(d, d, nil).c }
func (h *hclock) Timer(d time.Duration) *clock.Timer {
	t := h.add(d, 0, nil)
	return &clock.Timer{C: t.c, Verif: t}
}
func (h *hclock) After(d time.Duration) <-chan time.Time { return h.add(d, 0, nil).c }
func (h *hclock) AfterFunc(d time.Duration, f func()) *clock.Timer {
	t := h.add(d, 0, f)
	return &clock.Timer{C: t.c, Verif: t}
}
func (h *hclock) Sleep(d time.Duration) { <-h.add(d, 0, nil).c }
func (h *hclock) WithDeadline(ctx context.Context, t time.Time) (context.Context, context.CancelFunc) {
	return h.WithTimeout(ctx, t.Sub(h.Now()))
}
func (h *hclock) WithTimeout(ctx context.Context, d time.Duration) (context.Context, context.CancelFunc) {
	c, cancel := context.WithCancel(ctx)
	t := h.add(d, 0, cancel)
	return c, func() { t.Stop(); cancel() }
}

// ---- alphabet
type event struct {
	Kind  string `json:"kind"` // req | adv | drain
	Chain uint16 `json:"chain,omitempty"`
	Tx    string `json:"tx,omitempty"`
	Sec   int    `json:"sec,omitempty"`
}

// txBytes: "0x.." is a hex-encoded identifier (artefacts are JSON: raw bytes would not survive), anything else its bytes
func txBytes(tx string) []byte {
	if strings.HasPrefix(tx, "0x") {
		b, err := hex.DecodeString(tx[2:])
		if err != nil {
			ev.Broken("bad tx literal %q", tx)
		}
		return b
	}
	return []byte(tx)
}

func (e event) String() string {
	switch e.Kind {
	case "req":
		return fmt.Sprintf("Req(chain=%d,tx=%s)", e.Chain, e.Tx)
	case "adv":
		return fmt.Sprintf("Adv(%s)", time.Duration(e.Sec)*time.Second)
	}
	return fmt.Sprintf("Drain(chain=%d)", e.Chain)
}

type config struct {
	Name     string         `json:"name"`
	Caps     map[uint16]int `json:"queue_capacities"`
	Alphabet []event        `json:"alphabet"`
	Phase    int            `json:"initial_advance_sec"`   // shifts the first request relative to the purge ticker
	AgeCap   int            `json:"age_cap_sec,omitempty"` // long-horizon configs: ages above the cap are merged in the state key
	Depth    int            `json:"depth,omitempty"`
	Prefix   []int          `json:"prefix,omitempty"` // the search of this config is rooted after these events (sharding)
}

const unknownChain = 77

type pair struct {
	chain uint16
	tx    string
}

type sys struct {
	cfg    *config
	clk    *hclock
	cancel context.CancelFunc
	reqC   chan *gossipv1.ObservationRequest
	chains map[vaa.ChainID]chan *gossipv1.ObservationRequest
	done   chan struct{}
	dead   bool
	// oracle memory (harness's own record)
	lastForward map[pair]time.Time
	lastDrop    map[pair]time.Time
	lastReq     map[pair]time.Time
	nForward    map[pair]int
	start       time.Time
}

func newSys(cfg *config) *sys {
	s := &sys{cfg: cfg, clk: &hclock{now: time.Unix(1_700_000_000, 0)}, reqC: make(chan *gossipv1.ObservationRequest),
		chains: map[vaa.ChainID]chan *gossipv1.ObservationRequest{}, done: make(chan struct{}),
		lastForward: map[pair]time.Time{}, lastDrop: map[pair]time.Time{}, lastReq: map[pair]time.Time{}, nForward: map[pair]int{}}
	s.start = s.clk.now
	for c, k := range cfg.Caps {
		s.chains[vaa.ChainID(c)] = make(chan *gossipv1.ObservationRequest, k)
	}
	ctx, cancel := context.WithCancel(context.Background())
	s.cancel = cancel
	go func() {
		defer close(s.done)
		guardiand.VerifHandleReobservationRequests(ctx, s.clk, s.reqC, s.chains)
	}()
	s.quiesce(nil)
	if cfg.Phase > 0 {
		s.advance(time.Duration(cfg.Phase)*time.Second, nil)
	}
	return s
}

func (s *sys) Close() {
	s.cancel()
	if !s.dead {
		<-s.done
	}
}

func (s *sys) Dead() bool { return s.dead }

// quiesce waits until the dispatcher is parked and returns its wait state.
func (s *sys) quiesce(hist []int) string {
	gs, ok := quiesce.Wait(quiesce.Options{Ignore: func(g quiesce.Goroutine) bool { return !g.Has("handleReobservationRequests") },
		Activity: func() uint64 { return s.clk.reads }})
	if !ok {
		ev.Broken("dispatcher does not become quiescent")
	}
	d := quiesce.Find(gs, "handleReobservationRequests")
	if len(d) == 0 {
		return "exited"
	}
	return d[0].State
}

func (s *sys) viol(key, what string, hist []int) {
	var pretty []string
	var evs []event
	for _, i := range hist {
		pretty = append(pretty, s.cfg.Alphabet[i].String())
		evs = append(evs, s.cfg.Alphabet[i])
	}
	r.Violation(key, what+"  history: "+strings.Join(pretty, " ")+"  ["+s.cfg.Name+"]", map[string]interface{}{"config": s.cfg, "history": hist, "events": evs})
}

func (s *sys) advance(d time.Duration, hist []int) {
	h := s.clk
	h.mu.Lock()
	target := h.now.Add(d)
	h.mu.Unlock()
	for {
		h.mu.Lock()
		var nt *htick
		for _, t := range h.tickers {
			if !t.stopped && !t.next.After(target) && (nt == nil || t.next.Before(nt.next)) {
				nt = t
			}
		}
		if nt == nil {
			h.mu.Unlock()
			break
		}
		if nt.next.After(h.now) {
			h.now = nt.next
		}
		if nt.period > 0 {
			nt.next = nt.next.Add(nt.period)
		} else {
			nt.stopped = true
		}
		now, fn := h.now, nt.fn
		h.mu.Unlock()
		if fn != nil {
			go fn()
		} else {
			select {
			case nt.c <- now:
			default: // a real ticker drops the tick when the slot is full
			}
		}
		s.quiesce(hist)
	}
	h.mu.Lock()
	h.now = target
	h.mu.Unlock()
}

func (s *sys) qlens() map[uint16]int {
	m := map[uint16]int{}
	for c, ch := range s.chains {
		m[uint16(c)] = len(ch)
	}
	return m
}

func (s *sys) Apply(ei int, hist []int, check bool) {
	e := s.cfg.Alphabet[ei]
	switch e.Kind {
	case "adv":
		s.advance(time.Duration(e.Sec)*time.Second, hist)
		if st := s.quiesce(hist); st != "select" && check {
			s.dead = true
			s.viol("dispatcher is not parked in its select after a clock advance: "+st, "", hist)
		}
	case "drain":
		ch := s.chains[vaa.ChainID(e.Chain)]
		for len(ch) > 0 {
			<-ch
		}
	case "req":
		req := &gossipv1.ObservationRequest{ChainId: uint32(e.Chain), TxHash: txBytes(e.Tx)}
		p := pair{e.Chain, e.Tx}
		before := s.qlens()
		capOf, known := s.cfg.Caps[e.Chain]
		// rendezvous on the unbuffered request channel
		delivered := false
		for spin := 0; spin < 1000 && !delivered; spin++ {
			select {
			case s.reqC <- req:
				delivered = true
			default:
				if st := s.quiesce(hist); st == "chan send" || st == "exited" {
					spin = 1000
				}
			}
		}
		if !delivered {
			s.dead = true
			if check {
				s.viol("dispatcher does not take a request (blocked or gone)", "", hist)
			}
			return
		}
		st := s.quiesce(hist)
		if st != "select" {
			s.dead = true
			if check {
				s.viol("dispatcher blocks after a request (state "+st+") instead of dropping it", fmt.Sprintf("queue fill before: %v", before), hist)
			}
			return
		}
		after := s.qlens()
		now := s.clk.now
		forwarded := false
		for c, n := range after {
			if n != before[c] {
				if c == e.Chain && n == before[c]+1 {
					forwarded = true
				} else if check {
					s.viol("request forwarded to a watcher other than the chain it names", fmt.Sprintf("chain %d queue %d -> %d", c, before[c], n), hist)
				}
			}
		}
		if forwarded {
			// the element put in the queue must be this request
			ch := s.chains[vaa.ChainID(e.Chain)]
			items := make([]*gossipv1.ObservationRequest, 0, len(ch))
			for len(ch) > 0 {
				items = append(items, <-ch)
			}
			for _, it := range items {
				ch <- it
			}
			if items[len(items)-1] != req && check {
				s.viol("queue received something other than the request", "", hist)
			}
		}
		if check {
			lf, had := s.lastForward[p]
			age := now.Sub(lf)
			full := known && before[e.Chain] >= capOf
			switch {
			case !known && forwarded:
				s.viol("request for an unknown chain was forwarded", "", hist)
			case forwarded && full:
				s.viol("request forwarded although the queue was full", "", hist)
			case forwarded && had && age <= 11*time.Minute:
				s.viol("same (chain, transaction) forwarded twice within the 11-minute suppression window", fmt.Sprintf("previous forward %s ago", age), hist)
			case !forwarded && known && !full && !had:
				ld, dropped := s.lastDrop[p]
				why := "never forwarded before"
				if dropped {
					why = fmt.Sprintf("only DROPPED before (%s ago, full queue): a dropped request was remembered", now.Sub(ld))
				}
				s.viol("request with room in its watcher's queue was not forwarded although this (chain, transaction) was never forwarded", why, hist)
			case !forwarded && known && !full && had && age >= 18*time.Minute:
				s.viol("request not forwarded although the last forward is >= 18 minutes ago (suppression window 11 min + one purge period)", fmt.Sprintf("previous forward %s ago", age), hist)
			}
		}
		if forwarded {
			s.lastForward[p] = now
			s.nForward[p]++
		} else {
			s.lastDrop[p] = now
		}
		s.lastReq[p] = now
	}
}

func (s *sys) Enabled() []int {
	out := make([]int, len(s.cfg.Alphabet))
	for i := range out {
		out[i] = i
	}
	return out
}

// Key: everything the dispatcher's hidden cache can depend on, from the harness's own record: per
// (chain, tx) the exact ages of the last forward / drop / request, the phase of the purge ticker,
// queue fill levels.
func (s *sys) Key() string {
	var ks []string
	age := func(m map[pair]time.Time, p pair) int64 {
		if t, ok := m[p]; ok {
			a := int64(s.clk.now.Sub(t) / time.Second)
			if s.cfg.AgeCap > 0 && a > int64(s.cfg.AgeCap) {
				a = int64(s.cfg.AgeCap) // older than suppression window + two purge periods: no obligation depends on the exact age
			}
			return a
		}
		return -1
	}
	seen := map[pair]bool{}
	for p := range s.lastReq {
		seen[p] = true
	}
	for p := range seen {
		k := fmt.Sprintf("%d/%s:f%d:d%d:r%d", p.chain, p.tx, age(s.lastForward, p), age(s.lastDrop, p), age(s.lastReq, p))
		if s.cfg.AgeCap > 0 {
			// long-horizon configs: an entry that was forwarded, expired and forwarded AGAIN is kept apart from
			// one forwarded for the first time (the implementation's bookkeeping may differ between the two)
			n := s.nForward[p]
			if n > 3 {
				n = 3
			}
			k += fmt.Sprintf(":n%d", n)
		}
		ks = append(ks, k)
	}
	sort.Strings(ks)
	phase := int64(s.clk.now.Sub(s.start)/time.Second) % 420
	var q []string
	for c, n := range s.qlens() {
		q = append(q, fmt.Sprintf("%d=%d", c, n))
	}
	sort.Strings(q)
	return fmt.Sprintf("%s|phase=%d|q=%s", strings.Join(ks, ";"), phase, strings.Join(q, ","))
}

func configs() []config {
	advs := []int{60, 240, 420, 659, 660, 661, 1080}
	mk := func(name string, caps map[uint16]int, chains []uint16, txs []string, advs []int, phase int) config {
		c := config{Name: name, Caps: caps, Phase: phase}
		for _, ch := range chains {
			for _, tx := range txs {
				c.Alphabet = append(c.Alphabet, event{Kind: "req", Chain: ch, Tx: tx})
			}
		}
		for _, a := range advs {
			c.Alphabet = append(c.Alphabet, event{Kind: "adv", Sec: a})
		}
		for ch := range caps {
			if caps[ch] > 0 {
				c.Alphabet = append(c.Alphabet, event{Kind: "drain", Chain: ch})
			}
		}
		sort.SliceStable(c.Alphabet, func(i, j int) bool { return c.Alphabet[i].Kind > c.Alphabet[j].Kind })
		return c
	}
	var out []config
	for _, phase := range []int{0, 180, 360} {
		out = append(out,
			mk(fmt.Sprintf("one-chain-cap1-phase%d", phase), map[uint16]int{2: 1}, []uint16{2}, []string{"a", "b"}, advs, phase),
			mk(fmt.Sprintf("two-chains-cap2-cap1-phase%d", phase), map[uint16]int{2: 2, 4: 1}, []uint16{2, 4, unknownChain}, []string{"a"}, []int{60, 420, 660, 661, 1080}, phase),
			mk(fmt.Sprintf("cap0-and-cap1-phase%d", phase), map[uint16]int{255: 0, 2: 1}, []uint16{255, 2}, []string{"a"}, []int{240, 661, 1080}, phase))
	}
	// transaction identifiers that differ as byte strings but coincide after padding / truncation to 32 bytes
	// (1 byte vs the same byte + 00; 33 bytes differing only in the last byte; 32 bytes; empty): each is a
	// transaction of its own and a first request for it must be forwarded
	h32 := "0x" + strings.Repeat("11", 31)
	enc := mk("tx-encodings", map[uint16]int{2: 64}, []uint16{2}, []string{"0xab", "0xab00", h32 + "01", h32 + "0102", h32 + "0103", "0x"}, []int{660}, 0)
	enc.Depth = 3
	out = append(out, enc)
	// ... and after LEFT padding / keeping the last 32 bytes (what a conversion to a fixed-size hash type does): 1 byte
	// vs 00 + the same byte; empty vs 00; 32 bytes vs the same 32 bytes behind one more byte; 33 bytes differing only
	// in the first byte
	t32 := strings.Repeat("22", 32)
	enc2 := mk("tx-encodings-left", map[uint16]int{2: 64}, []uint16{2}, []string{"0xab", "0x00ab", "0x", "0x00", "0x" + t32, "0x01" + t32, "0x02" + t32}, []int{660}, 0)
	enc2.Depth = 3
	out = append(out, enc2)
	// long horizon: few events, many steps - histories in which an entry expires, is forwarded again and
	// interacts with a younger entry over several purge periods
	lh := mk("long-horizon-two-tx", map[uint16]int{2: 64}, []uint16{2}, []string{"a", "b"}, []int{240, 420}, 0)
	var noDrain []event // no drain: the queue never fills
	for _, e := range lh.Alphabet {
		if e.Kind != "drain" {
			noDrain = append(noDrain, e)
		}
	}
	lh.Alphabet = noDrain
	lh.AgeCap, lh.Depth = 1500, 9
	for first := range lh.Alphabet { // one shard per first event
		c := lh
		c.Name = fmt.Sprintf("%s-first-%s", lh.Name, lh.Alphabet[first])
		c.Prefix = []int{first}
		out = append(out, c)
	}
	return out
}

func main() {
	r = ev.Start("C17", "model_checking")
	cfgs := configs()
	if len(os.Args) > 2 && os.Args[1] == "--replay" {
		replay(os.Args[2])
		return
	}
	si, sn, worker := ev.Shard()
	if !worker {
		postFull()
		postFullAdmin()
		volume()
		steady()
		productionWiring()
		r.Fork(len(cfgs), nil, nil)
		r.Set("rule", "state key = per (chain, tx) exact ages of last forward / drop / request (harness's own record), phase of the 7-minute purge ticker, queue fill levels; every transition is performed on the real dispatcher goroutine and judged after quiescence")
		r.Assume("the dispatcher uses only Now and Ticker of the clock interface; ticks are delivered one boundary at a time with quiescence in between (as the mock clock does)")
		r.Finish()
		return
	}
	depth := r.Pick(5, 7)
	for i := range cfgs {
		if i%sn != si {
			continue
		}
		c := &cfgs[i]
		d := depth
		if len(c.Alphabet) > 10 {
			d = depth - 1
		}
		if c.Depth > 0 {
			d = c.Depth + r.Pick(0, 3) - len(c.Prefix)
		}
		t0 := time.Now()
		// determinism self-test: the same history twice gives the same key
		h := []int{0, 1, len(c.Alphabet) - 1, 0}
		k1, k2 := runKey(c, h), runKey(c, h)
		if k1 != k2 {
			ev.Broken("determinism self-test failed: %s vs %s", k1, k2)
		}
		st := mc.BFS(func() mc.Sys { return newSys(c) }, c.Prefix, d, 400000, nil)
		r.Add("states", st.States)
		r.Add("transitions", st.Transitions)
		r.Add("traces_validated_against_impl", st.Builds)
		if st.Capped {
			r.Cap("state cap in " + c.Name)
		}
		r.Sample(map[string]interface{}{"config": c.Name, "depth": d, "alphabet": fmt.Sprint(c.Alphabet), "states": st.States, "transitions": st.Transitions})
		if os.Getenv("VERIF_VERBOSE") != "" {
			fmt.Fprintf(os.Stderr, "%s depth=%d states=%d transitions=%d builds=%d %.1fs\n", c.Name, d, st.States, st.Transitions, st.Builds, time.Since(t0).Seconds())
		}
	}
	r.Finish()
}

func runKey(c *config, h []int) string {
	s := newSys(c)
	defer s.Close()
	for i, e := range h {
		s.Apply(e, h[:i+1], false)
	}
	return s.Key()
}

// postFull: posting to a full outbound request queue fails immediately at every fill level.
func postFull() {
	for capacity := 0; capacity <= 50; capacity += 5 {
		ch := make(chan *gossipv1.ObservationRequest, capacity)
		for fill := 0; fill <= capacity; fill++ {
			r.Add("post_cases", 1)
			done := make(chan error, 1)
			go func() { done <- common.PostObservationRequest(ch, &gossipv1.ObservationRequest{ChainId: 1}) }()
			gs, _ := quiesce.Wait(quiesce.Options{Ignore: func(g quiesce.Goroutine) bool { return !g.Has("PostObservationRequest") }})
			select {
			case err := <-done:
				if fill < capacity && err != nil {
					r.Violation("PostObservationRequest fails although the queue has room", err.Error(), []int{capacity, fill})
				}
				if fill == capacity && err != common.ErrChanFull {
					r.Violation("PostObservationRequest on a full queue does not return ErrChanFull", fmt.Sprint(err), []int{capacity, fill})
				}
				if fill == capacity {
					// keep the queue full for the next round; otherwise one element was added
				}
			default:
				st := "?"
				if p := quiesce.Find(gs, "PostObservationRequest"); len(p) > 0 {
					st = p[0].State
				}
				r.Violation("PostObservationRequest blocks the caller on a full queue (state "+st+")", "", []int{capacity, fill})
				<-ch // release it
				<-done
			}
		}
	}
}

// postFullAdmin: the admin RPC SendObservationRequest is the second producer of the outbound request queue;
// at every fill level it must return at once - success with room, an error when the queue is full - with a
// caller context that has no deadline. Blocking is decided by goroutine-state inspection.
func postFullAdmin() {
	for capacity := 0; capacity <= 50; capacity += 10 {
		ch := make(chan *gossipv1.ObservationRequest, capacity)
		svc := guardiand.VerifNewPrivilegedService(nil, nil, ch, nil, 1, vaa.Address{})
		for fill := 0; fill <= capacity; fill++ {
			r.Add("post_cases", 1)
			ctx, cancel := context.WithCancel(context.Background())
			done := make(chan error, 1)
			go func() {
				_, err := svc.SendObservationRequest(ctx, &nodev1.SendObservationRequestRequest{ObservationRequest: &gossipv1.ObservationRequest{ChainId: 2, TxHash: []byte{byte(fill)}}})
				done <- err
			}()
			gs, _ := quiesce.Wait(quiesce.Options{Ignore: func(g quiesce.Goroutine) bool { return !g.Has("SendObservationRequest") }})
			select {
			case err := <-done:
				if fill < capacity && (err != nil || len(ch) != fill+1) {
					r.Violation("admin SendObservationRequest fails although the queue has room", fmt.Sprint(err), []int{capacity, fill})
				}
				if fill == capacity && (err == nil || len(ch) != capacity) {
					r.Violation("admin SendObservationRequest on a full queue does not fail", fmt.Sprint(err), []int{capacity, fill})
				}
			default:
				st := "?"
				if p := quiesce.Find(gs, "SendObservationRequest"); len(p) > 0 {
					st = p[0].State
				}
				r.Violation("admin SendObservationRequest blocks the caller on a full queue (state "+st+")", "", []int{capacity, fill})
				// release the parked caller whichever way it waits (room in the queue or its context), then go on
				// with the next capacity: the fill level of this queue is no longer known
				cancel()
				for released := false; !released; {
					select {
					case <-done:
						released = true
					case <-ch:
					default:
						runtime.Gosched()
					}
				}
				fill = capacity // leave this capacity
			}
			cancel()
		}
	}
}

// volume: more distinct transactions are live in one suppression window than any plausible cap on the
// dispatcher's memory (2500, the watcher drains its queue): every one is forwarded once, and a repeat of the
// 1st, the 1024th, the 1025th, the 2000th and the last inside the window is suppressed.
func volume() {
	const n = 2500
	c := config{Name: "volume-2500-transactions", Caps: map[uint16]int{2: 64}}
	for i := 0; i < n; i++ {
		c.Alphabet = append(c.Alphabet, event{Kind: "req", Chain: 2, Tx: fmt.Sprintf("0x%064x", i+1)})
	}
	c.Alphabet = append(c.Alphabet, event{Kind: "drain", Chain: 2}, event{Kind: "adv", Sec: 1})
	drain, adv := n, n+1
	s := newSys(&c)
	defer s.Close()
	var hist []int
	do := func(e int) {
		hist = append(hist, e)
		s.Apply(e, hist[len(hist)-1:], true) // violations carry the last event only: the history is the rule above
	}
	for i := 0; i < n && !s.dead; i++ {
		do(i)
		if i%32 == 31 {
			do(drain)
		}
		if i%500 == 499 {
			do(adv)
		}
	}
	do(drain)
	for _, i := range []int{0, 1023, 1024, 1999, n - 1} {
		if !s.dead {
			do(i)
		}
	}
	r.Add("volume_requests", len(hist))
}

// steady: one watched transaction under STEADY traffic - a fresh transaction is requested (and forwarded) every
// gap seconds for half an hour, on the same chain or on another one, and the watched transaction is requested again
// every minute. The oracle of Apply judges every step: never twice within 11 minutes, forwarded again at the
// latest 18 minutes after its last forward - whatever else the dispatcher is busy with.
func steady() {
	for _, gap := range []int{60, 180, 300, 360, 419, 420, 421, 480} {
		for _, otherChain := range []bool{false, true} {
			c := config{Name: fmt.Sprintf("steady-traffic/every-%ds/other-chain=%v", gap, otherChain), Caps: map[uint16]int{2: 64, 4: 64}}
			const horizon = 40 * 60
			nFresh := horizon/gap + 1
			ch := uint16(2)
			if otherChain {
				ch = 4
			}
			for i := 0; i < nFresh; i++ {
				c.Alphabet = append(c.Alphabet, event{Kind: "req", Chain: ch, Tx: fmt.Sprintf("0x%064x", 0x1000+i)})
			}
			watched := len(c.Alphabet)
			c.Alphabet = append(c.Alphabet, event{Kind: "req", Chain: 2, Tx: "0x" + strings.Repeat("ab", 32)},
				event{Kind: "drain", Chain: 2}, event{Kind: "drain", Chain: 4}, event{Kind: "adv", Sec: 1})
			drain2, drain4, adv1 := watched+1, watched+2, watched+3
			// advance in steps that land exactly on the next interesting second
			s := newSys(&c)
			var hist []int
			do := func(e int) {
				hist = append(hist, e)
				s.Apply(e, hist, true)
			}
			fresh := 0
			for t := 0; t <= horizon && !s.dead; t++ {
				if t%gap == 0 && fresh < nFresh {
					do(fresh)
					fresh++
					do(drain2)
					do(drain4)
				}
				if t%60 == 30 {
					do(watched)
					do(drain2)
				}
				do(adv1)
			}
			r.Add("steady_traffic_steps", len(hist))
			s.Close()
		}
	}
}

// productionWiring: the explorations above hand the dispatcher a queue map and watch the queues. In the node
// that map is built in cmd/guardiand/node.go and every queue is handed to ONE watcher constructor; read from the
// source at check time: the watcher constructed for chain X receives chainObsvReqC[X], no queue is handed to two
// watchers, and every queue that is created is handed to a watcher (a queue nobody drains fills up and then
// every request for that chain is dropped).
func productionWiring() {
	nodeGo := filepath.Join(r.Repo, "node/cmd/guardiand/node.go")
	re := regexp.MustCompile(`^chainObsvReqC\[vaa\.(ChainID\w+)\]$`)
	used := map[string]string{}
	check := func(watcher, chain, arg string) {
		m := re.FindStringSubmatch(arg)
		if m == nil {
			ev.Broken("node.go: %s receives %q as its re-observation queue: outside the recognised wiring", watcher, arg)
		}
		r.Add("wiring_facts", 1)
		if m[1] != chain {
			r.Violation("production wiring: a watcher is handed the re-observation queue of another chain", fmt.Sprintf("%s (chain %s) receives chainObsvReqC[vaa.%s]", watcher, chain, m[1]), map[string]string{"watcher": watcher, "chain": chain, "queue": m[1]})
		}
		if prev, dup := used[m[1]]; dup {
			r.Violation("production wiring: two watchers drain the same re-observation queue", fmt.Sprintf("%s and %s both receive chainObsvReqC[vaa.%s]", prev, watcher, m[1]), map[string]string{"a": prev, "b": watcher, "queue": m[1]})
		}
		used[m[1]] = watcher
	}
	qs, err := wiring.ArgFor(nodeGo, "ethereum.NewEthWatcher", filepath.Join(r.Repo, "node/pkg/ethereum/watcher.go"), "NewEthWatcher", "obsvReqC")
	cs, err2 := wiring.ArgFor(nodeGo, "ethereum.NewEthWatcher", filepath.Join(r.Repo, "node/pkg/ethereum/watcher.go"), "NewEthWatcher", "chainID")
	if err != nil || err2 != nil {
		ev.Broken("node.go wiring of the EVM watchers: %v %v", err, err2)
	}
	for i := range qs {
		check(fmt.Sprintf("EVM watcher #%d", i+1), strings.TrimPrefix(cs[i], "vaa."), qs[i])
	}
	aq, err := wiring.ArgFor(nodeGo, "alephium.NewAlephiumWatcher", filepath.Join(r.Repo, "node/pkg/alephium/watcher.go"), "NewAlephiumWatcher", "obsvReqC")
	if err != nil || len(aq) != 1 {
		ev.Broken("node.go wiring of the Alephium watcher: %v", err)
	}
	check("Alephium watcher", "ChainIDAlephium", aq[0])
	src, _ := os.ReadFile(nodeGo)
	for _, m := range regexp.MustCompile(`(?m)^\s*chainObsvReqC\[vaa\.(ChainID\w+)\] = make\(`).FindAllStringSubmatch(string(src), -1) {
		r.Add("wiring_facts", 1)
		if used[m[1]] == "" {
			r.Violation("production wiring: a re-observation queue is created but handed to no watcher", "chainObsvReqC[vaa."+m[1]+"]", m[1])
		}
	}
}

func replay(path string) {
	b, err := os.ReadFile(path)
	if err != nil {
		ev.Broken("%v", err)
	}
	var art struct {
		Replay struct {
			Config  config `json:"config"`
			History []int  `json:"history"`
		} `json:"replay"`
	}
	if err := json.Unmarshal(b, &art); err != nil {
		ev.Broken("%v", err)
	}
	s := newSys(&art.Replay.Config)
	for i, e := range art.Replay.History {
		s.Apply(e, art.Replay.History[:i+1], true)
	}
	s.Close()
	fmt.Printf("replayed: %d violations\n", r.Violations())
	if r.Violations() > 0 {
		os.Exit(1)
	}
	os.Exit(0)
}
