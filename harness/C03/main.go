// C03: gossip not signed by a current guardian cannot change node state.
// Exhaustive single-step mutation of valid heartbeats, re-observation requests and observations
// (every single-bit flip of payload, signature and address; outsider signer; member signing with
// another member's address; every wrong domain prefix; every body length 0..40 under a valid
// signature; cross-type replays) x guardian sets {1,3,19} x {before, after a set change that drops the
// signer}, against the real p2p verifiers, the real GuardianSetState and the real processor handler;
// plus an explicit-state search of the per-guardian heartbeat cap.
package main

import (
	"fmt"
	"regexp"
	"path/filepath"
	"os"
	"reflect"
	"sync/atomic"
	"time"

	"github.com/alephium/wormhole-fork/node/pkg/common"
	"github.com/alephium/wormhole-fork/node/pkg/p2p"
	"github.com/alephium/wormhole-fork/node/pkg/processor"
	gossipv1 "github.com/alephium/wormhole-fork/node/pkg/proto/gossip/v1"
	"github.com/alephium/wormhole-fork/node/pkg/vaa"
	"github.com/alephium/wormhole-fork/node/verifh/ev"
	"github.com/alephium/wormhole-fork/node/verifh/keys"
	"github.com/alephium/wormhole-fork/node/verifh/mc"
	"github.com/alephium/wormhole-fork/node/verifh/proch"
	"github.com/alephium/wormhole-fork/node/verifh/vtime"
	"github.com/alephium/wormhole-fork/node/verifh/wiring"
	ethcommon "github.com/ethereum/go-ethereum/common"
	"github.com/ethereum/go-ethereum/crypto"
	"github.com/libp2p/go-libp2p/core/peer"
	"google.golang.org/protobuf/proto"
)

var r *ev.Run
var evals int64

const (
	hbPrefix  = "heartbeat|"
	reqPrefix = "signed_observation_request|"
	outsider  = 9999
)

func rng(a, b int) []int {
	var o []int
	for i := a; i < b; i++ {
		o = append(o, i)
	}
	return o
}

func heartbeat(size int) []byte {
	h := &gossipv1.Heartbeat{NodeName: "guardian-0", Counter: 1, Timestamp: 1700000000000000000, GuardianAddr: "0xabcdef0123"}
	switch size {
	case 1:
		h.Version = "v1.2.3-verif"
		h.Networks = []*gossipv1.Heartbeat_Network{{Id: 2, Height: 10, ContractAddress: "0x1"}}
	case 2:
		h.Version = "v1.2.3-verif-a-much-longer-version-string"
		for i := 0; i < 4; i++ {
			h.Networks = append(h.Networks, &gossipv1.Heartbeat_Network{Id: uint32(i), Height: int64(1000 + i), ContractAddress: "0x0290FB167208Af455bB137780163b7B7a9a10C16"})
		}
	}
	b, err := proto.Marshal(h)
	if err != nil {
		panic(err)
	}
	return b
}

func request() []byte {
	b, _ := proto.Marshal(&gossipv1.ObservationRequest{ChainId: 255, TxHash: []byte("0123456789abcdef0123456789abcdef")})
	return b
}

func imax(a, b int) int {
	if a > b {
		return a
	}
	return b
}

func sign(key int, prefix string, body []byte) []byte {
	return keys.Sign(key, crypto.Keccak256(append([]byte(prefix), body...)))
}

type hbCase struct {
	Kind    string `json:"kind"`
	SetSize int    `json:"set_size"`
	After   bool   `json:"after_set_change_dropping_signer"`
	What    string `json:"mutation"`
}

// tryHeartbeat: must be rejected with the table unchanged (wantReject) or accepted and stored under the signer.
func tryHeartbeat(c hbCase, gs *common.GuardianSet, s *gossipv1.SignedHeartbeat, wantReject bool, signer int) {
	atomic.AddInt64(&evals, 1)
	gst := common.NewGuardianSetState(nil)
	gst.Set(gs)
	// pre-populate one entry so that "unchanged" is judged on a non-empty table
	gst.SetHeartbeat(keys.Addr(500), peer.ID("pre"), &gossipv1.Heartbeat{NodeName: "pre"})
	before := gst.GetAll()
	var h *gossipv1.Heartbeat
	var err error
	func() {
		defer func() {
			if p := recover(); p != nil {
				r.Violation("heartbeat verifier panics", fmt.Sprint(p), c)
				err = fmt.Errorf("panic")
			}
		}()
		h, err = p2p.VerifProcessSignedHeartbeat(peer.ID("peer-x"), s, gs, gst, false)
	}()
	after := gst.GetAll()
	if wantReject {
		if err == nil {
			r.Violation("heartbeat accepted: "+c.What, fmt.Sprintf("set size %d, after set change %v", c.SetSize, c.After), c)
		}
		if !reflect.DeepEqual(before, after) {
			r.Violation("rejected heartbeat changed the heartbeat table: "+c.What, "", c)
		}
		return
	}
	if err != nil || h == nil {
		r.Violation("positive control: a valid heartbeat of a current guardian is rejected", fmt.Sprint(err), c)
		return
	}
	if _, ok := after[keys.Addr(signer)][peer.ID("peer-x")]; !ok {
		r.Violation("valid heartbeat not stored under the recovered signer", "", c)
	}
}

func tryRequest(c hbCase, gs *common.GuardianSet, s *gossipv1.SignedObservationRequest, wantReject bool) {
	atomic.AddInt64(&evals, 1)
	var q *gossipv1.ObservationRequest
	var err error
	func() {
		defer func() {
			if p := recover(); p != nil {
				r.Violation("observation-request verifier panics", fmt.Sprint(p), c)
				err = fmt.Errorf("panic")
			}
		}()
		q, err = p2p.VerifProcessSignedObservationRequest(s, gs)
	}()
	if wantReject && err == nil {
		r.Violation("observation request accepted (would be forwarded to a chain watcher): "+c.What, fmt.Sprintf("set size %d, after set change %v", c.SetSize, c.After), c)
	}
	if !wantReject && (err != nil || q == nil) {
		r.Violation("positive control: a valid observation request of a current guardian is rejected", fmt.Sprint(err), c)
	}
}

func flips(b []byte, f func(m []byte, bit int)) {
	for i := 0; i < len(b)*8; i++ {
		m := append([]byte{}, b...)
		m[i/8] ^= 1 << (i % 8)
		f(m, i)
	}
}

func main() {
	r = ev.Start("C03", "model_checking")
	type setup struct {
		gs     *common.GuardianSet
		size   int
		after  bool
		signer int // key id of the base signer
		member bool
	}
	var setups []setup
	for _, n := range []int{1, 3, 19} {
		// before: signer = last member of set 0. after: set 1 = keys 1..n+1 shifted, signer key 0 dropped.
		setups = append(setups, setup{proch.Set(0, rng(0, n)...), n, false, n - 1, true})
		setups = append(setups, setup{proch.Set(1, rng(1, n+1)...), n, true, 0, false})
	}
	var jobs []func()
	for _, su := range setups {
		su := su
		other := su.gs.Keys[0]
		otherID := 0
		if su.after {
			otherID = 1
		}
		_ = otherID
		for size := 0; size < 3; size++ {
			body := heartbeat(size)
			sig := sign(su.signer, hbPrefix, body)
			addr := keys.Addr(su.signer).Bytes()
			mk := func(b, s, a []byte) *gossipv1.SignedHeartbeat {
				return &gossipv1.SignedHeartbeat{Heartbeat: b, Signature: s, GuardianAddr: a}
			}
			cs := func(what string) hbCase { return hbCase{"heartbeat", su.size, su.after, what} }
			jobs = append(jobs, func() {
				// positive control / dropped signer
				tryHeartbeat(cs("unmutated"), su.gs, mk(body, sig, addr), !su.member, su.signer)
				flips(body, func(m []byte, bit int) {
					tryHeartbeat(cs("bit flip in payload"), su.gs, mk(m, sig, addr), true, su.signer)
				})
				flips(sig, func(m []byte, bit int) {
					tryHeartbeat(cs("bit flip in signature"), su.gs, mk(body, m, addr), true, su.signer)
				})
				flips(addr, func(m []byte, bit int) {
					tryHeartbeat(cs("bit flip in address"), su.gs, mk(body, sig, m), true, su.signer)
				})
				tryHeartbeat(cs("signed by an outsider claiming its own address"), su.gs, mk(body, sign(outsider, hbPrefix, body), keys.Addr(outsider).Bytes()), true, outsider)
				tryHeartbeat(cs("signed by an outsider claiming a member's address"), su.gs, mk(body, sign(outsider, hbPrefix, body), other.Bytes()), true, outsider)
				if su.size > 1 || !su.member {
					// a member (or the dropped signer) signing with ANOTHER member's address
					tryHeartbeat(cs("member signs with another member's address"), su.gs, mk(body, sig, other.Bytes()), true, su.signer)
				}
				for _, pfx := range []string{"", reqPrefix, hbPrefix[:len(hbPrefix)-1], "heartbeat", "Heartbeat|"} {
					tryHeartbeat(cs(fmt.Sprintf("signed under wrong prefix %q", pfx)), su.gs, mk(body, sign(su.signer, pfx, body), addr), true, su.signer)
				}
				for _, l := range []int{0, 64, 66} {
					s2 := append(append([]byte{}, sig...), 0)[:l]
					tryHeartbeat(cs(fmt.Sprintf("signature of %d bytes", l)), su.gs, mk(body, s2, addr), true, su.signer)
				}
				tryHeartbeat(cs("empty address"), su.gs, mk(body, sig, nil), true, su.signer)
			})
		}
		// length floor: every body length 0..40 under a VALID signature by a member
		if su.member {
			jobs = append(jobs, func() {
				for l := 0; l <= 40; l++ {
					// bodies of exactly l bytes that are VALID protobuf for both message types where possible
					// (field 1/2 length-delimited), so that only the length floor can reject them
					body := make([]byte, l)
					for i := range body {
						body[i] = byte(0x61 + i%20)
					}
					if l >= 2 {
						body[0], body[1] = 0x0a, byte(l-2) // Heartbeat.node_name
					}
					rbody := append([]byte{}, body...)
					if l >= 2 {
						rbody[0] = 0x12 // ObservationRequest.tx_hash
					}
					addr := keys.Addr(su.signer).Bytes()
					short := len(hbPrefix)+l < 34
					if short {
						tryHeartbeat(hbCase{"heartbeat", su.size, su.after, fmt.Sprintf("validly signed body below the 34-byte floor (signed bytes = %d)", len(hbPrefix)+l)}, su.gs,
							&gossipv1.SignedHeartbeat{Heartbeat: body, Signature: sign(su.signer, hbPrefix, body), GuardianAddr: addr}, true, su.signer)
					}
					if len(reqPrefix)+l < 34 {
						tryRequest(hbCase{"request", su.size, su.after, fmt.Sprintf("validly signed body below the 34-byte floor (signed bytes = %d)", len(reqPrefix)+l)}, su.gs,
							&gossipv1.SignedObservationRequest{ObservationRequest: rbody, Signature: sign(su.signer, reqPrefix, rbody), GuardianAddr: addr}, true)
					}
				}
				// the precise cross-purpose case: a 32-byte VAA digest pre-image that happens to start with the
				// prefix; the guardian's observation signature over keccak(pre-image) is presented as heartbeat/request
				for _, pfx := range []string{hbPrefix, reqPrefix} {
					pre := append([]byte(pfx), make([]byte, 32-len(pfx))...)
					for i := len(pfx); i < 32; i++ {
						pre[i] = byte(i)
					}
					obsSig := keys.Sign(su.signer, crypto.Keccak256(pre)) // what handleObservation would accept for hash keccak(pre)
					addr := keys.Addr(su.signer).Bytes()
					if pfx == hbPrefix {
						tryHeartbeat(hbCase{"heartbeat", su.size, su.after, "observation signature over a 32-byte pre-image replayed as heartbeat"}, su.gs,
							&gossipv1.SignedHeartbeat{Heartbeat: pre[len(pfx):], Signature: obsSig, GuardianAddr: addr}, true, su.signer)
					} else {
						tryRequest(hbCase{"request", su.size, su.after, "observation signature over a 32-byte pre-image replayed as observation request"}, su.gs,
							&gossipv1.SignedObservationRequest{ObservationRequest: pre[len(pfx):], Signature: obsSig, GuardianAddr: addr}, true)
					}
				}
			})
		}
		// observation requests
		{
			body := request()
			sig := sign(su.signer, reqPrefix, body)
			addr := keys.Addr(su.signer).Bytes()
			mk := func(b, s, a []byte) *gossipv1.SignedObservationRequest {
				return &gossipv1.SignedObservationRequest{ObservationRequest: b, Signature: s, GuardianAddr: a}
			}
			cs := func(what string) hbCase { return hbCase{"request", su.size, su.after, what} }
			jobs = append(jobs, func() {
				tryRequest(cs("unmutated"), su.gs, mk(body, sig, addr), !su.member)
				flips(body, func(m []byte, bit int) { tryRequest(cs("bit flip in payload"), su.gs, mk(m, sig, addr), true) })
				flips(sig, func(m []byte, bit int) { tryRequest(cs("bit flip in signature"), su.gs, mk(body, m, addr), true) })
				flips(addr, func(m []byte, bit int) { tryRequest(cs("bit flip in address"), su.gs, mk(body, sig, m), true) })
				tryRequest(cs("signed by an outsider claiming its own address"), su.gs, mk(body, sign(outsider, reqPrefix, body), keys.Addr(outsider).Bytes()), true)
				tryRequest(cs("signed by an outsider claiming a member's address"), su.gs, mk(body, sign(outsider, reqPrefix, body), other.Bytes()), true)
				if su.size > 1 || !su.member {
					tryRequest(cs("member signs with another member's address"), su.gs, mk(body, sig, other.Bytes()), true)
				}
				if su.size > 1 && su.member {
					// claims member A (correctly in the set) but is signed by member B
					tryRequest(cs("claims one member, signed by another member"), su.gs, mk(body, sign(0, reqPrefix, body), addr), true)
					hb := heartbeat(1)
					tryHeartbeat(hbCase{"heartbeat", su.size, su.after, "claims one member, signed by another member"}, su.gs,
						&gossipv1.SignedHeartbeat{Heartbeat: hb, Signature: sign(0, hbPrefix, hb), GuardianAddr: addr}, true, 0)
				}
				for _, pfx := range []string{"", hbPrefix, reqPrefix[:len(reqPrefix)-1], "signed_observation_request"} {
					tryRequest(cs(fmt.Sprintf("signed under wrong prefix %q", pfx)), su.gs, mk(body, sign(su.signer, pfx, body), addr), true)
				}
				// cross-type replay: heartbeat-signed bytes as request and vice versa
				hb := heartbeat(1)
				tryRequest(cs("heartbeat signature and body replayed as observation request"), su.gs, mk(hb, sign(su.signer, hbPrefix, hb), addr), true)
				tryHeartbeat(hbCase{"heartbeat", su.size, su.after, "observation-request signature and body replayed as heartbeat"}, su.gs,
					&gossipv1.SignedHeartbeat{Heartbeat: body, Signature: sig, GuardianAddr: addr}, true, su.signer)
			})
		}
	}
	mc.ParallelFor(len(jobs), func(i int) { jobs[i]() })
	// unauthenticated gossip must not change what happens to authenticated gossip either: a guardian's genuine
	// request / heartbeat is accepted before AND after a burst of forged ones that name it (signed by another
	// member, by an outsider, not signed at all)
	for _, size := range []int{1, 3, 19} {
		gs := &common.GuardianSet{Index: 0, Keys: keys.Addrs(rng(0, size)...)}
		g := size - 1
		addr := keys.Addr(g).Bytes()
		genuine := func(i int) *gossipv1.SignedObservationRequest {
			b, _ := proto.Marshal(&gossipv1.ObservationRequest{ChainId: 2, TxHash: []byte{byte(i), byte(i >> 8), 3, 4, 5, 6, 7, 8, 9, 10, 11, 12, 13, 14, 15, 16, 17, 18, 19, 20, 21, 22, 23, 24, 25, 26, 27, 28, 29, 30, 31, 32}})
			return &gossipv1.SignedObservationRequest{ObservationRequest: b, Signature: sign(g, reqPrefix, b), GuardianAddr: addr}
		}
		c := hbCase{"request", size, false, "genuine request after a burst of forged requests naming the same guardian"}
		tryRequest(hbCase{"request", size, false, "genuine request before the burst"}, gs, genuine(0), false)
		for i := 1; i <= 200; i++ {
			f := genuine(i)
			switch i % 3 {
			case 0:
				f.Signature = sign(outsider, reqPrefix, f.ObservationRequest)
			case 1:
				f.Signature = sign((g+1)%imax(size, 2), reqPrefix, f.ObservationRequest)
			default:
				f.Signature = make([]byte, 65)
			}
			if size == 1 && i%3 == 1 {
				f.Signature = sign(outsider, reqPrefix, f.ObservationRequest)
			}
			tryRequest(hbCase{"request", size, false, "forged request of the burst"}, gs, f, true)
		}
		tryRequest(c, gs, genuine(1000), false)
		tryRequest(c, gs, genuine(1001), false)
	}
	r.Set("verifier_mutants", int(evals))

	// ---- heartbeat table cap: explicit-state search over (peers of guardian A, peers of guardian B)
	capStates, capTrans := heartbeatCap()
	// ---- observation path: mutants of a valid observation must leave the processor untouched
	obsMut := observationMutants()

	// ---- production wiring: the verifiers above are called with disableVerify=false. In the node that argument is
	// a parameter of p2p.Run, bound in cmd/guardiand/node.go: it must be the --disableHeartbeatVerify flag and
	// nothing else (read with go/ast at check time)
	{
		nodeGo := filepath.Join(r.Repo, "node/cmd/guardiand/node.go")
		got, err := wiring.ArgFor(nodeGo, "p2p.Run", filepath.Join(r.Repo, "node/pkg/p2p/p2p.go"), "Run", "disableHeartbeatVerify")
		if err != nil || len(got) != 1 {
			ev.Broken("node.go: call of p2p.Run: %v", err)
		}
		r.Set("p2p_run_disableHeartbeatVerify_argument", got[0])
		if got[0] != "*disableHeartbeatVerify" {
			r.Violation("production wiring: heartbeat verification is switched by something else than the --disableHeartbeatVerify flag", "node.go passes "+got[0]+" for p2p.Run's disableHeartbeatVerify parameter: with that value true, heartbeats signed by any key are stored", got[0])
		}
		src, _ := os.ReadFile(nodeGo)
		if !regexp.MustCompile(`disableHeartbeatVerify = NodeCmd\.Flags\(\)\.Bool\("disableHeartbeatVerify", false,`).Match(src) {
			r.Violation("production wiring: heartbeat verification is not on by default", "the --disableHeartbeatVerify flag is not declared with default false", nil)
		}
	}

	r.Set("states", capStates+int(evals)+obsMut)
	r.Set("transitions", capTrans+int(evals)+obsMut)
	r.Set("traces_validated_against_impl", int(evals)+obsMut+capTrans)
	r.Set("heartbeat_cap_states", capStates)
	r.Set("observation_mutants", obsMut)
	r.Sample(hbCase{"heartbeat", 3, false, "bit flip in payload (one of 8*len bits), signature (520 bits), address (160 bits)"})
	r.Sample(hbCase{"request", 19, true, "signer dropped by the set change: unmutated message must now be rejected"})
	r.Set("rule", "every mutant is one (base message, guardian set, before/after set change, single mutation) tuple evaluated on a fresh GuardianSetState; states/transitions count mutant evaluations plus the heartbeat-cap search; the unmutated base of every tuple is the positive control")
	r.Assume("pubsub envelope handling in p2p.Run needs libp2p and is not driven; the two verifier functions and the processor's handleObservation are")
	r.Finish()
}

func heartbeatCap() (int, int) {
	gs := proch.Set(0, 0, 1)
	type st struct{ a, b int }
	seen := map[st]bool{{0, 0}: true}
	frontier := []st{{0, 0}}
	trans := 0
	body := heartbeat(0)
	// replay the shortest history on a fresh table for every transition
	build := func(s st) *common.GuardianSetState {
		gst := common.NewGuardianSetState(nil)
		gst.Set(gs)
		for i := 0; i < s.a; i++ {
			p2p.VerifProcessSignedHeartbeat(peer.ID(fmt.Sprintf("a%d", i)), &gossipv1.SignedHeartbeat{Heartbeat: body, Signature: sign(0, hbPrefix, body), GuardianAddr: keys.Addr(0).Bytes()}, gs, gst, false)
		}
		for i := 0; i < s.b; i++ {
			p2p.VerifProcessSignedHeartbeat(peer.ID(fmt.Sprintf("b%d", i)), &gossipv1.SignedHeartbeat{Heartbeat: body, Signature: sign(1, hbPrefix, body), GuardianAddr: keys.Addr(1).Bytes()}, gs, gst, false)
		}
		return gst
	}
	for len(frontier) > 0 {
		s := frontier[0]
		frontier = frontier[1:]
		for g := 0; g < 2; g++ {
			for _, fresh := range []bool{true, false} {
				gst := build(s)
				cnt := s.a
				name := "a"
				if g == 1 {
					cnt, name = s.b, "b"
				}
				pid := peer.ID(fmt.Sprintf("%s%d", name, cnt)) // a new peer
				if !fresh {
					if cnt == 0 {
						continue
					}
					pid = peer.ID(name + "0") // an already known peer
				}
				_, err := p2p.VerifProcessSignedHeartbeat(pid, &gossipv1.SignedHeartbeat{Heartbeat: body, Signature: sign(g, hbPrefix, body), GuardianAddr: keys.Addr(g).Bytes()}, gs, gst, false)
				trans++
				all := gst.GetAll()
				for addr, m := range all {
					if len(m) > common.MaxNodesPerGuardian {
						r.Violation("heartbeat table holds more than MaxNodesPerGuardian entries for one guardian", fmt.Sprintf("%d entries for %s", len(m), addr.Hex()), s)
					}
				}
				ns := st{len(all[keys.Addr(0)]), len(all[keys.Addr(1)])}
				if fresh && cnt >= common.MaxNodesPerGuardian && err == nil {
					r.Violation("a peer beyond the per-guardian cap was accepted", "", s)
				}
				if fresh && cnt < common.MaxNodesPerGuardian && err != nil {
					r.Violation("a heartbeat from a new peer below the cap was rejected", err.Error(), s)
				}
				if !seen[ns] && ns.a <= 17 && ns.b <= 17 {
					seen[ns] = true
					frontier = append(frontier, ns)
				}
			}
		}
	}
	return len(seen), trans
}

// observationMutants drives the real processor handler: every single-bit flip of hash, signature and
// address of a valid member observation (and outsider / wrong-address variants), before and after a
// set change, must leave aggregation state, store and outbound channel untouched.
func observationMutants() int {
	w := proch.NewWorld()
	n := 0
	var e vaa.Address
	e[31] = 0x42
	msg := proch.Msg{Seq: 1, Payload: []byte{1}, Emitter: e, Chain: 2, Target: 255}
	for _, size := range []int{1, 3, 6, 19} {
		for _, hist := range []string{"before", "after", "observed-setchange-reobserved", "gossiped-settled-setchange"} {
			after := hist != "before"
			reobs := hist == "observed-setchange-reobserved"
			settled := hist == "gossiped-settled-setchange"
			cfg := proch.Config{Name: "obs", Sets: [][]int{rng(0, size), rng(1, size+1)}, OwnKey: 1, Msgs: []proch.Msg{msg}}
			if size == 1 {
				cfg.OwnKey = 0
				if reobs || settled {
					continue
				}
			}
			signer := size - 1
			if after {
				signer = 0
			}
			base := &gossipv1.SignedObservation{Addr: keys.Addr(signer).Bytes(), Hash: msg.OwnDigest(), Signature: keys.Sign(signer, msg.OwnDigest()), TxHash: []byte{1}, MessageId: "x"}
			mkNode := func() *proch.Node {
				nd := w.NewNode(cfg.OwnKey, 50)
				nd.Step(proch.Set(0, cfg.Sets[0]...))
				if reobs {
					// the message is observed under set 0, the set changes (dropping key 0), the message is
					// observed again: the applicable set for its digest is now set 1
					nd.Step(msg.Pub())
					nd.Step(proch.Set(1, cfg.Sets[1]...))
					nd.Step(msg.Pub())
					for len(nd.Pending) > 0 {
						nd.TakeLoopback(0)
					}
					return nd
				}
				if settled {
					// the digest is known from gossip only (never observed locally); a cleanup tick passes after the
					// settlement time; THEN the set changes: the applicable set for the digest is the new one
					nd.Step(&gossipv1.SignedObservation{Addr: keys.Addr(1).Bytes(), Hash: msg.OwnDigest(), Signature: keys.Sign(1, msg.OwnDigest())})
					vtime.Advance(31 * time.Second)
					nd.Step(processor.VerifTick{})
					nd.Step(proch.Set(1, cfg.Sets[1]...))
					return nd
				}
				if after {
					nd.Step(proch.Set(1, cfg.Sets[1]...))
				}
				// one legitimately parked signature so that "unchanged" is judged on a non-empty state
				ok := 1
				nd.Step(&gossipv1.SignedObservation{Addr: keys.Addr(ok).Bytes(), Hash: msg.OwnDigest(), Signature: keys.Sign(ok, msg.OwnDigest())})
				return nd
			}
			nd := mkNode()
			before := nd.P.VerifSnapshot()
			try := func(what string, o *gossipv1.SignedObservation) {
				n++
				out := nd.Step(o)
				c := hbCase{"observation/" + hist, size, after, what}
				if out.Panic != nil {
					r.Add("observation_mutant_panics_left_to_C13", 1)
					nd.Close()
					nd = mkNode()
					return
				}
				if now := nd.P.VerifSnapshot(); !reflect.DeepEqual(before, now) || len(out.Obs)+len(out.VAAs)+len(out.Reqs) > 0 || len(nd.Store()) > 0 {
					r.Violation("unauthenticated observation changed processor state: "+what, fmt.Sprintf("set size %d, after set change %v", size, after), c)
					nd.Close()
					nd = mkNode()
				}
			}
			cp := func(f func(o *gossipv1.SignedObservation)) *gossipv1.SignedObservation {
				o := proto.Clone(base).(*gossipv1.SignedObservation)
				f(o)
				return o
			}
			if after { // the dropped signer's valid observation must be ignored
				try("valid signature by a guardian dropped by the set change", base)
			}
			flips(base.Hash, func(m []byte, bit int) {
				try("bit flip in hash", cp(func(o *gossipv1.SignedObservation) { o.Hash = m }))
			})
			flips(base.Signature, func(m []byte, bit int) {
				try("bit flip in signature", cp(func(o *gossipv1.SignedObservation) { o.Signature = m }))
			})
			flips(base.Addr, func(m []byte, bit int) {
				try("bit flip in address", cp(func(o *gossipv1.SignedObservation) { o.Addr = m }))
			})
			try("signed by an outsider claiming its own address", cp(func(o *gossipv1.SignedObservation) {
				o.Addr, o.Signature = keys.Addr(outsider).Bytes(), keys.Sign(outsider, o.Hash)
			}))
			try("signed by an outsider claiming a member's address", cp(func(o *gossipv1.SignedObservation) {
				o.Addr, o.Signature = keys.Addr(1).Bytes(), keys.Sign(outsider, o.Hash)
			}))
			try("member signs with another member's address", cp(func(o *gossipv1.SignedObservation) {
				o.Addr, o.Signature = ethcommon.Address(keys.Addr(1)).Bytes(), keys.Sign(signer, o.Hash)
			}))
			try("heartbeat-prefixed signature presented as observation", cp(func(o *gossipv1.SignedObservation) {
				o.Signature = sign(signer, hbPrefix, o.Hash)
			}))
			// the same for a digest the node has never heard of: a dropped observation must not leave an (empty)
			// aggregation entry behind either
			fresh := crypto.Keccak256([]byte("a digest nobody has observed"))
			try("outsider's self-consistent observation of a digest the node has never seen", cp(func(o *gossipv1.SignedObservation) {
				o.Hash, o.Addr, o.Signature = fresh, keys.Addr(outsider).Bytes(), keys.Sign(outsider, fresh)
			}))
			try("outsider claiming a member's address, digest the node has never seen", cp(func(o *gossipv1.SignedObservation) {
				o.Hash, o.Addr, o.Signature = fresh, keys.Addr(1).Bytes(), keys.Sign(outsider, fresh)
			}))
			if after {
				try("valid signature by a guardian dropped by the set change, digest the node has never seen", cp(func(o *gossipv1.SignedObservation) {
					o.Hash, o.Signature = fresh, keys.Sign(signer, fresh)
				}))
			}
			nd.Close()
			if hist == "before" {
				// before the first guardian set is known nobody is a guardian: every observation is dropped without trace
				nd = w.NewNode(cfg.OwnKey, 50)
				mk0 := mkNode
				mkNode = func() *proch.Node { return w.NewNode(cfg.OwnKey, 50) }
				before = nd.P.VerifSnapshot()
				try("self-consistent observation before any guardian set is known", base)
				try("outsider's observation before any guardian set is known", cp(func(o *gossipv1.SignedObservation) {
					o.Hash, o.Addr, o.Signature = fresh, keys.Addr(outsider).Bytes(), keys.Sign(outsider, fresh)
				}))
				nd.Close()
				mkNode = mk0
			}
		}
	}
	return n
}
