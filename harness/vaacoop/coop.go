// Package vaacoop: concurrent callers of the VAA codec. node/pkg/vaa/structs.go is compiled with a
// scheduling point before every statement (tools/yieldgen) and two or three threads - each encoding, hashing,
// verifying or decoding ITS OWN VAA - are run under every schedule with a bounded number of preemptions
// (vsched). The codec has no shared state, so every thread must get exactly the result a lone caller gets
// (computed here with an independent encoder); any scratch memory shared between calls (package-level
// buffer, pooled buffer handed back too early, cached digest) shows up as a result that belongs to the
// other thread's VAA. Serves C04 (digest) and C05 (encoding).
package vaacoop

import (
	"bytes"
	"encoding/binary"
	"fmt"
	"runtime"
	"strings"
	"time"

	"github.com/alephium/wormhole-fork/node/pkg/vaa"
	"github.com/alephium/wormhole-fork/node/verifh/ev"
	"github.com/alephium/wormhole-fork/node/verifh/keys"
	"github.com/alephium/wormhole-fork/node/verifh/vsched"
	"github.com/ethereum/go-ethereum/common"
	"github.com/ethereum/go-ethereum/crypto"
)

func ownBody(v *vaa.VAA) []byte {
	var f [53]byte
	binary.BigEndian.PutUint32(f[0:], uint32(v.Timestamp.Unix()))
	binary.BigEndian.PutUint32(f[4:], v.Nonce)
	binary.BigEndian.PutUint16(f[8:], uint16(v.EmitterChain))
	binary.BigEndian.PutUint16(f[10:], uint16(v.TargetChain))
	copy(f[12:44], v.EmitterAddress[:])
	binary.BigEndian.PutUint64(f[44:], v.Sequence)
	f[52] = v.ConsistencyLevel
	return append(f[:], v.Payload...)
}

func ownEncode(v *vaa.VAA) []byte {
	b := []byte{v.Version, byte(v.GuardianSetIndex >> 24), byte(v.GuardianSetIndex >> 16), byte(v.GuardianSetIndex >> 8), byte(v.GuardianSetIndex), byte(len(v.Signatures))}
	for _, s := range v.Signatures {
		b = append(b, s.Index)
		b = append(b, s.Signature[:]...)
	}
	return append(b, ownBody(v)...)
}

func ownDigest(v *vaa.VAA) []byte { return crypto.Keccak256(crypto.Keccak256(ownBody(v))) }

// mk builds VAA number i: bodies of different lengths, two valid signatures by keys 0 and 1.
func mk(i int) *vaa.VAA {
	v := &vaa.VAA{Version: 1, GuardianSetIndex: uint32(i), Timestamp: time.Unix(1700000000+int64(i), 0), Nonce: uint32(10 + i), Sequence: uint64(100 + i),
		ConsistencyLevel: uint8(i), EmitterChain: vaa.ChainID(2 + i), TargetChain: 255}
	v.EmitterAddress[31] = byte(0x40 + i)
	v.Payload = bytes.Repeat([]byte{byte(0xa0 + i)}, 3+5*i)
	d := ownDigest(v)
	for k := 0; k < 2; k++ {
		sg := &vaa.Signature{Index: uint8(k)}
		copy(sg.Signature[:], keys.Sign(k, d))
		v.Signatures = append(v.Signatures, sg)
	}
	return v
}

type op struct {
	name string
	run  func(v *vaa.VAA) []byte
	want func(v *vaa.VAA) []byte
}

var addrs = []common.Address{keys.Addr(0), keys.Addr(1)}

var ops = map[string]op{
	"Marshal": {"Marshal", func(v *vaa.VAA) []byte { b, _ := v.Marshal(); return b }, ownEncode},
	"SigningMsg": {"SigningMsg", func(v *vaa.VAA) []byte { h := v.SigningMsg(); return h[:] }, ownDigest},
	"SerializeBody": {"SerializeBody", func(v *vaa.VAA) []byte { return v.SerializeBody() }, ownBody},
	"HexDigest": {"HexDigest", func(v *vaa.VAA) []byte { return []byte(v.HexDigest()) }, func(v *vaa.VAA) []byte { return []byte(fmt.Sprintf("%x", ownDigest(v))) }},
	"VerifySignatures": {"VerifySignatures", func(v *vaa.VAA) []byte {
		if v.VerifySignatures(addrs) {
			return []byte{1}
		}
		return []byte{0}
	}, func(*vaa.VAA) []byte { return []byte{1} }},
	"Unmarshal+Marshal": {"Unmarshal+Marshal", func(v *vaa.VAA) []byte {
		enc := ownEncode(v)
		w, err := vaa.Unmarshal(append(make([]byte, 0, len(enc)), enc...))
		if err != nil {
			return []byte("error: " + err.Error())
		}
		b, _ := w.Marshal()
		return b
	}, ownEncode},
}

// Cases: which calls run concurrently (thread i works on VAA i).
func cases(thorough bool) [][]string {
	c := [][]string{
		{"Marshal", "Marshal"}, {"SigningMsg", "SigningMsg"}, {"SigningMsg", "Marshal"}, {"SerializeBody", "Marshal"},
		{"VerifySignatures", "Marshal"}, {"VerifySignatures", "SigningMsg"}, {"Unmarshal+Marshal", "Marshal"}, {"HexDigest", "SigningMsg"},
		{"Unmarshal+Marshal", "Unmarshal+Marshal"},
		{"Marshal", "SigningMsg", "Marshal"},
	}
	if thorough {
		c = append(c, []string{"VerifySignatures", "VerifySignatures"}, []string{"SigningMsg", "SigningMsg", "SigningMsg"}, []string{"Unmarshal+Marshal", "SigningMsg", "Marshal"})
	}
	return c
}

// Explore runs every case under every schedule with at most `bound` preemptions (three-thread cases: at
// most bound-1, at least 1) and reports violations on r. Returns executions and scheduling points seen.
func Explore(r *ev.Run, bound int, thorough bool) (execs int) {
	oldP := runtime.GOMAXPROCS(1) // one P: a per-P cache in the code under test is shared by all threads, deterministically
	// the collector stays on (an exploration allocates for hours otherwise); a pooled object survives one
	// collection in the pool's victim cache, so back-to-back Put/Get pairs of one execution still meet
	defer runtime.GOMAXPROCS(oldP)
	maxPoints := 0
	for _, c := range cases(thorough) {
		c := c
		var res [][]byte
		var vs []*vaa.VAA
		mkBodies := func() []func() {
			res = make([][]byte, len(c))
			vs = nil
			var bodies []func()
			for i, name := range c {
				i, o := i, ops[name]
				v := mk(i)
				vs = append(vs, v)
				bodies = append(bodies, func() { res[i] = o.run(v) })
			}
			return bodies
		}
		b := bound
		if len(c) > 2 && b > 1 {
			b--
		}
		n, complete := vsched.ExploreBudget(mkBodies, b, 400000, func(e *vsched.Exec) {
			if len(e.Points) > maxPoints {
				maxPoints = len(e.Points)
			}
			rec := map[string]interface{}{"concurrent_calls": c, "schedule": e.Choices, "trace": e.Trace}
			if e.Deadlock || e.Livelock {
				r.Violation("concurrent callers: deadlock or livelock inside the codec", strings.Join(c, " || "), rec)
				return
			}
			for i, name := range c {
				if p, _ := e.Panic(i); p != nil {
					r.Violation("concurrent callers: panic in "+name, fmt.Sprint(p), rec)
					return
				}
				if want := ops[name].want(vs[i]); !bytes.Equal(res[i], want) {
					whose := "neither caller's VAA"
					for j, other := range c {
						if j != i && bytes.Equal(res[i], ops[name].want(vs[j])) {
							whose = "the OTHER caller's VAA (" + other + " running concurrently)"
						}
					}
					r.Violation("concurrent callers: "+name+" returned a result that is not the one a lone caller gets", fmt.Sprintf("%s: result of thread %d belongs to %s", strings.Join(c, " || "), i, whose), rec)
					return
				}
			}
		})
		execs += n
		if !complete {
			r.Cap(fmt.Sprintf("concurrent callers %s: preemption bound %d not finished within 400000 schedules", strings.Join(c, " || "), b))
		}
		r.Sample(map[string]interface{}{"concurrent_calls": strings.Join(c, " || "), "preemption_bound": b, "schedules": n, "complete": complete})
	}
	r.Set("concurrent_caller_schedules", execs)
	r.Set("concurrent_caller_max_scheduling_points", maxPoints)
	return execs
}
