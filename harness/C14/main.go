// C14: pending attestations are retried, then expired, on a bounded schedule.
// Explicit-state search over the real Processor (handlers + handleCleanup) under an exact virtual
// clock, started from non-initial states in which each entry kind (observed-unsubmitted, unobserved,
// submitted, late, budget nearly spent) was created by the real handlers. Every cleanup tick is
// compared with a schedule oracle written from the statement; in every new state a fair closing
// schedule must empty the aggregation map (no immortal entry).
package main

import (
	"bytes"
	"encoding/hex"
	"encoding/json"
	"fmt"
	"os"
	"sort"
	"strings"
	"time"

	"github.com/alephium/wormhole-fork/node/pkg/processor"
	"github.com/alephium/wormhole-fork/node/pkg/vaa"
	"github.com/alephium/wormhole-fork/node/verifh/ev"
	"github.com/alephium/wormhole-fork/node/verifh/proch"
	"github.com/alephium/wormhole-fork/node/verifh/vtime"
)

const budget = 14400

func msgs() []proch.Msg {
	var e vaa.Address
	e[31] = 0x42
	return []proch.Msg{
		{Seq: 1, Payload: []byte{1}, Emitter: e, Chain: 2, Target: 255},
		{Seq: 2, Payload: []byte{2}, Emitter: e, Chain: 4, Target: 255},
		{Seq: 3, Payload: []byte{3}, Emitter: e, Chain: 2, Target: 255}, // never observed locally
		// identifiers that collide with message 0 as decimal strings in the store key (sequence 1 vs 10,
		// target chain 255 vs 2550): a stored VAA of THESE must not make message 0 "late"
		{Seq: 10, Payload: []byte{4}, Emitter: e, Chain: 2, Target: 255},
		{Seq: 1, Payload: []byte{5}, Emitter: e, Chain: 2, Target: 2550},
		// 5: an ordinary contract's message on the chain the governance contract lives on (that chain is a watched
		// chain like any other): retried and re-requested like every other message
		{Seq: 6, Payload: []byte{6}, Emitter: e, Chain: proch.GovChain, Target: 255},
	}
}

func rng(a, b int) []int {
	var o []int
	for i := a; i < b; i++ {
		o = append(o, i)
	}
	return o
}

type job struct {
	Name   string
	C      proch.Config
	Prefix []proch.Event
	Depth  int
	Ticks  []int
	Weight int
}

var tickAlphabet = []int{30, 1, 29, 299, 300, 301, 3540, 3660, 10800}

func jobs(r *ev.Run) []job {
	set := proch.Event{Kind: "set", Set: 0}
	msg0 := proch.Event{Kind: "msg", M: 0}
	lb := proch.Event{Kind: "lb", LB: 0}
	n3 := [][]int{rng(0, 3), rng(1, 4)}
	n1 := [][]int{rng(0, 1), rng(0, 2)}
	d := r.Pick(4, 5)
	mk := func(name string, sets [][]int, prefix []proch.Event, depth int) job {
		return job{Name: name, C: proch.Config{Name: name, Sets: sets, OwnKey: 0, Msgs: msgs()}, Prefix: prefix, Depth: depth, Ticks: tickAlphabet, Weight: depth}
	}
	// store fault: every instance has a store of its own and the alphabet has the event "the store fails from
	// now on" (every lookup returns the store's error): a failing lookup is not "a quorum VAA is stored"
	fault := func(name string, prefix []proch.Event) job {
		j := mk(name, n3, prefix, d-1)
		j.C.PrivateDB = true
		j.Ticks = []int{30, 301, 3660}
		return j
	}
	return []job{
		fault("store-fails/observed-unsubmitted", []proch.Event{set, msg0, lb}),
		fault("store-fails/late", []proch.Event{set, msg0, lb, {Kind: "in", M: 0, InVar: 0, InSet: 0}}),
		fault("store-fails/settled", []proch.Event{set, msg0, lb, {Kind: "tick", DtSec: 31}}),
		mk("observed-unsubmitted", n3, []proch.Event{set, msg0, lb}, d),
		mk("observed-unsubmitted/ordinary-emitter-on-the-governance-chain", n3, []proch.Event{set, {Kind: "msg", M: 5}, lb}, d-1),
		mk("observed+unobserved", n3, []proch.Event{set, msg0, lb, {Kind: "obs", G: 1, D: 2}}, d),
		mk("unobserved-only", n3, []proch.Event{set, {Kind: "obs", G: 1, D: 2}}, d),
		mk("submitted", n1, []proch.Event{set, msg0, lb}, d),
		mk("late", n3, []proch.Event{set, msg0, lb, {Kind: "in", M: 0, InVar: 0, InSet: 0}}, d),
		mk("late-before-loopback", n3, []proch.Event{set, msg0, {Kind: "in", M: 0, InVar: 0, InSet: 0}}, d),
		mk("budget-minus-1", n3, []proch.Event{set, msg0, lb, {Kind: "budget", M: 0, DtSec: budget - 1}}, d),
		mk("budget-spent", n3, []proch.Event{set, msg0, lb, {Kind: "budget", M: 0, DtSec: budget}}, d),
		mk("two-observed", n3, []proch.Event{set, msg0, lb, {Kind: "msg", M: 1}, lb}, d-1),
		mk("injected", n3, []proch.Event{set, {Kind: "inject", M: 1}, lb}, d-1),
		mk("from-scratch", n3, nil, d+1),
		mk("pending#1+stored#10-same-stream", n3, []proch.Event{set, msg0, lb, {Kind: "in", M: 3, InVar: 0, InSet: 0}}, d-1),
		mk("pending-target255+stored-target2550", n3, []proch.Event{set, msg0, lb, {Kind: "in", M: 4, InVar: 0, InSet: 0}}, d-1),
		mk("settled-then-set-update", n3, []proch.Event{set, msg0, lb, {Kind: "tick", DtSec: 31}, {Kind: "set", Set: 1}}, d-1),
	}
}

func menu(j job) proch.Enabled {
	return func(n *proch.Node, m *proch.Model, hist []proch.Event) []proch.Event {
		var evs []proch.Event
		for _, t := range j.Ticks {
			evs = append(evs, proch.Event{Kind: "tick", DtSec: t})
		}
		evs = append(evs, proch.Event{Kind: "tick", DtSec: 300, FullQ: true}, proch.Event{Kind: "tick", DtSec: 30, FullQ: true})
		evs = append(evs, proch.Event{Kind: "tick", DtSec: 301, FullS: true})
		if m.Cur+1 < len(j.C.Sets) {
			evs = append(evs, proch.Event{Kind: "set", Set: m.Cur + 1})
		}
		if len(n.Pending) < 1 && m.Cur >= 0 {
			evs = append(evs, proch.Event{Kind: "msg", M: 0})
		}
		for i := range n.Pending {
			evs = append(evs, proch.Event{Kind: "lb", LB: i})
		}
		evs = append(evs, proch.Event{Kind: "obs", G: 1, D: 0}, proch.Event{Kind: "obs", G: 2, D: 2}, proch.Event{Kind: "in", M: 0, InVar: 0, InSet: 0})
		if j.C.PrivateDB && !m.DBClosed {
			evs = append(evs, proch.Event{Kind: "dbclose"})
		}
		return evs
	}
}

type oracle struct {
	r        *ev.Run
	x        *proch.Explorer
	pre      []processor.VerifEntry
	preStore map[string][]byte
}

func (o *oracle) msgOf(digest string) *proch.Msg {
	for i := range o.x.C.Msgs {
		if hex.EncodeToString(o.x.C.Msgs[i].OwnDigest()) == digest {
			return &o.x.C.Msgs[i]
		}
	}
	return nil
}

func (o *oracle) viol(key, what string, hist []proch.Event) {
	var pretty []string
	for _, e := range hist {
		pretty = append(pretty, e.String())
	}
	o.r.Violation("C14 "+key, what+"  history: "+strings.Join(pretty, " "), proch.Replay{Config: *o.x.C, History: hist, Pretty: pretty, Oracle: "C14"})
}

func kindOf(e processor.VerifEntry, storeHas bool) string {
	switch {
	case e.Submitted:
		return "submitted"
	case !e.HasOurMsg:
		return "unobserved"
	case storeHas:
		return "late"
	}
	return "observed-unsubmitted"
}

func (o *oracle) before(in *proch.Inst, e proch.Event) {
	o.pre = in.Node().P.VerifSnapshot()
	o.preStore = in.Node().Store()
}

func (o *oracle) after(in *proch.Inst, e proch.Event, out proch.Out, hist []proch.Event) {
	if e.Kind != "tick" {
		return
	}
	o.r.Add("ticks_checked", 1)
	if out.Blocked && !e.FullS {
		o.viol("a full re-observation request queue blocks the cleanup tick", "", hist)
	}
	now := vtime.Now()
	post := map[string]processor.VerifEntry{}
	for _, p := range in.Node().P.VerifSnapshot() {
		post[p.Digest] = p
	}
	accounted := 0
	for _, E := range o.pre {
		age := now.Sub(E.FirstObserved)
		// time since this entry's observation was last seen on the outbound channel, from the harness's
		// own record (not the node's lastRetry field)
		sinceRetry := time.Duration(1 << 62)
		if t, ok := in.PrevBroadcast[string(E.OurMsg)]; ok && E.HasOurMsg {
			sinceRetry = now.Sub(t)
		}
		if age < sinceRetry && E.HasOurMsg {
			sinceRetry = age // the original broadcast at observation time
		}
		m := o.msgOf(E.Digest)
		storeHas := false
		if m != nil {
			_, storeHas = o.preStore[m.StoreKey()]
		}
		kind := kindOf(E, storeHas)
		P, alive := post[E.Digest]
		retrans := 0
		if E.HasOurMsg {
			for _, raw := range out.ObsRaw {
				if bytes.Equal(raw, E.OurMsg) {
					retrans++
				}
			}
		}
		accounted += retrans
		desc := fmt.Sprintf("%s entry, age %s, since last retry %s, retries %d, settled %v", kind, age, fmtSince(sinceRetry), E.RetryCount, E.Settled)
		// S1: a retransmission happens only when due, exactly once, with the original bytes and a request
		if retrans > 0 {
			switch {
			case retrans > 1:
				o.viol("more than one re-broadcast of one observation in one tick", desc, hist)
			case kind != "observed-unsubmitted" && kind != "late":
				o.viol("re-broadcast for an entry that is not a pending own observation", desc, hist)
			case age < 5*time.Minute:
				o.viol("re-broadcast before the entry is five minutes old", desc, hist)
			case sinceRetry < 5*time.Minute:
				o.viol("re-broadcast less than five minutes after the previous one", desc, hist)
			case !alive || P.RetryCount != E.RetryCount+1:
				o.viol("re-broadcast without counting the retry", desc, hist)
			}
			reqs := 0
			for _, rq := range out.Reqs {
				if m != nil && rq.ChainId == uint32(m.Chain) && bytes.Equal(rq.TxHash, E.TxHash) {
					reqs++
				}
			}
			if e.FullQ && reqs != 0 {
				o.viol("re-observation request issued although the queue was full", desc, hist)
			}
			if !e.FullQ && reqs != 1 {
				o.viol(fmt.Sprintf("re-broadcast accompanied by %d re-observation requests for the originating transaction, want 1", reqs), desc, hist)
			}
		}
		// S1b: a retry that is counted has gone out (a busy gossip consumer delays it, it does not cancel it)
		if retrans == 0 && alive && E.HasOurMsg && P.RetryCount > E.RetryCount {
			o.viol("a retry was counted but the observation was not re-broadcast", desc, hist)
		}
		// S2: a due retry must happen
		if kind == "observed-unsubmitted" && E.Settled && age >= 5*time.Minute && sinceRetry >= 5*time.Minute && E.RetryCount < budget && retrans == 0 {
			o.viol("a due retry (entry >= 5 min old, >= 5 min since the last retry, budget left) did not happen", desc, hist)
		}
		// S3 + S5: removal only for a stated reason
		if !alive {
			o.r.Add("removals_checked", 1)
			ok := false
			switch kind {
			case "unobserved":
				ok = age >= 5*time.Minute || E.RetryCount >= 10
			case "submitted":
				ok = age >= time.Hour
			case "late":
				ok = age > 30*time.Second || E.RetryCount >= budget // a spent budget is a stated reason whatever the store holds
			case "observed-unsubmitted":
				ok = E.RetryCount >= budget
				if !ok {
					o.viol("a signed, still pending entry was discarded before its retry budget was spent and without a stored quorum VAA", desc, hist)
					continue
				}
			}
			if !ok {
				o.viol("entry removed earlier than its bound ("+kind+")", desc, hist)
			}
		}
	}
	if accounted != len(out.Obs) {
		o.viol("cleanup tick broadcast an observation that is no pending entry's original message", fmt.Sprintf("%d broadcast, %d accounted", len(out.Obs), accounted), hist)
	}
	if len(out.VAAs) != 0 {
		o.viol("cleanup tick broadcast a signed VAA", "", hist)
	}
}

func fmtSince(d time.Duration) string {
	if d > time.Duration(1<<61) {
		return "never"
	}
	return d.String()
}

// closing: no immortal entry. Budget of every own observation is set to budget-1, then a fair
// schedule of ticks must empty the map.
func (o *oracle) closing(in *proch.Inst, hist []proch.Event) {
	o.r.Add("closing_schedules", 1)
	x := o.x
	for len(in.Node().Pending) > 0 { // loopbacks still in flight are delivered first
		x.StepUnchecked(in, proch.Event{Kind: "lb", LB: 0})
	}
	for i := range x.C.Msgs {
		x.StepUnchecked(in, proch.Event{Kind: "budget", M: i, DtSec: budget - 1})
	}
	sched := []int{301, 301, 301, 301, 3601, 3601, 301, 301}
	for _, t := range sched {
		if out := x.StepUnchecked(in, proch.Event{Kind: "tick", DtSec: t}); out.Panic != nil {
			o.viol("panic in the closing schedule", fmt.Sprint(out.Panic), hist)
			return
		}
	}
	if left := in.Node().P.VerifSnapshot(); len(left) > 0 {
		var ks []string
		for _, e := range left {
			ks = append(ks, fmt.Sprintf("{submitted=%v ourMsg=%v retries=%d settled=%v age=%s}", e.Submitted, e.HasOurMsg, e.RetryCount, e.Settled, vtime.Now().Sub(e.FirstObserved)))
		}
		sort.Strings(ks)
		o.viol("an aggregation entry survives the fair closing schedule (immortal entry)", strings.Join(ks, " "), hist)
	}
}

// cadence: under the normal 30 s cadence consecutive retries are 5 min .. 5 min 30 s apart.
func cadence(r *ev.Run, w *proch.World) {
	c := proch.Config{Name: "cadence", Sets: [][]int{rng(0, 3)}, OwnKey: 0, Msgs: msgs()}
	x := &proch.Explorer{R: r, W: w, C: &c, Oracles: map[string]bool{}, WithTimes: true}
	o := &oracle{r: r, x: x}
	x.BeforeStep, x.OnStep = o.before, o.after
	hist := []proch.Event{{Kind: "set", Set: 0}, {Kind: "msg", M: 0}, {Kind: "lb", LB: 0}}
	var times []time.Duration
	inner := x.OnStep
	x.OnStep = func(in *proch.Inst, e proch.Event, out proch.Out, h []proch.Event) {
		inner(in, e, out, h)
		if e.Kind == "tick" && len(out.Obs) > 0 {
			times = append(times, vtime.Now().Sub(proch.T0))
		}
	}
	for i := 0; i < 45; i++ {
		hist = append(hist, proch.Event{Kind: "tick", DtSec: 30})
	}
	x.Run(hist).Close()
	r.Add("transitions", x.Transitions)
	r.Set("cadence_retry_times", fmt.Sprint(times))
	prev := time.Duration(0)
	for i, t := range times {
		gap := t - prev
		if gap < 5*time.Minute || gap > 5*time.Minute+30*time.Second {
			o.viol(fmt.Sprintf("under the 30 s cadence retry %d came %s after the previous one (want 5m..5m30s)", i+1, gap), fmt.Sprint(times), hist)
		}
		prev = t
	}
	if len(times) < 3 {
		o.viol("under the 30 s cadence fewer than 3 retries in 22 minutes", fmt.Sprint(times), hist)
	}
}

// underTraffic: the REAL Run loop (its own timer or ticker on the virtual clock, fired only when due) while
// other events keep arriving every g seconds, for every gap g of a small alphabet: the cleanup round must run
// every 30 s whatever the traffic - the signed, still pending observation is re-broadcast with a
// re-observation request between 5 min and 5 min 30 s + one gap after it was made, and again five minutes later.
func underTraffic(r *ev.Run, w *proch.World) {
	c := proch.Config{Name: "run-loop-under-traffic", Sets: [][]int{rng(0, 3)}, OwnKey: 0, Msgs: msgs()}
	for _, gap := range []int{1, 7, 10, 29, 30, 31, 45} {
		for _, traffic := range []string{"observations", "inbound-vaas", "none"} {
			rn := w.NewRunNode(c.OwnKey)
			rn.Deliver(c.Materialise(rn.Node, proch.Event{Kind: "set", Set: 0}))
			first := rn.Deliver(c.Materialise(rn.Node, proch.Event{Kind: "msg", M: 0}))
			if len(first.ObsRaw) != 1 {
				ev.Broken("run-loop-under-traffic: the local observation was not signed")
			}
			own := first.ObsRaw[0]
			var retries []int
			reqs := 0
			elapsed := 0
			for elapsed < 11*60 {
				out := rn.Elapse(time.Duration(gap) * time.Second)
				elapsed += gap
				var o2 proch.Out
				switch traffic {
				case "observations": // a valid observation of ANOTHER digest by a member
					o2 = rn.Deliver(c.Materialise(rn.Node, proch.Event{Kind: "obs", G: 1, D: 2}))
				case "inbound-vaas": // a signed VAA of another message from a peer
					o2 = rn.Deliver(c.Materialise(rn.Node, proch.Event{Kind: "in", M: 1, InVar: 0, InSet: 0}))
				}
				for _, o := range []proch.Out{out, o2} {
					for _, raw := range o.ObsRaw {
						if bytes.Equal(raw, own) {
							retries = append(retries, elapsed)
						}
					}
					reqs += len(o.Reqs)
				}
			}
			rn.Close()
			r.Add("run_loop_traffic_scenarios", 1)
			rec := map[string]interface{}{"gap_seconds": gap, "traffic": traffic, "retry_times_s": retries, "requests": reqs}
			ok := len(retries) == 2 && retries[0] >= 300 && retries[0] <= 330+gap && retries[1]-retries[0] >= 300 && retries[1]-retries[0] <= 330+gap && reqs == 2
			if !ok {
				r.Violation("C14 run loop: with events arriving every few seconds the pending observation is not retried on the five-minute schedule", fmt.Sprintf("gap %d s, traffic %s: retries at %v s, %d re-observation requests (want 2 retries ~300 s apart, 2 requests in 11 min)", gap, traffic, retries, reqs), rec)
			}
		}
	}
}

func main() {
	r := ev.Start("C14", "model_checking")
	if len(os.Args) > 2 && os.Args[1] == "--replay" {
		replay(r, os.Args[2])
		return
	}
	js := jobs(r)
	si, sn, worker := ev.Shard()
	if !worker {
		r.Set("jobs", len(js))
		r.Fork(len(js), []string{"GOMAXPROCS=2"}, nil)
		r.Set("rule", "state = canonical key incl. exact virtual ages and seconds since the last retry; tick alphabet {30 s, 1 s, 29 s, 4 min 59 s, 5 min, 5 min 1 s, 59 min, 61 min, 3 h} plus ticks with a full request queue; searches start from states created by the real handlers for each entry kind; schedule oracle on every tick, closing schedule in every new state")
		r.Assume("'about five minutes' / 'about an hour' are read as: never earlier than the bound, and gone/retried at the latest two ticks after it")
		r.Finish()
		return
	}
	w := proch.NewWorld()
	for i, j := range js {
		if i%sn != si {
			continue
		}
		j := j
		t0 := time.Now()
		x := &proch.Explorer{R: r, W: w, C: &j.C, Oracles: map[string]bool{}, WithTimes: true}
		o := &oracle{r: r, x: x}
		x.BeforeStep, x.OnStep, x.OnNewState = o.before, o.after, o.closing
		if i == 0 {
			x.SelfTest([]proch.Event{{Kind: "set", Set: 0}, {Kind: "msg", M: 0}, {Kind: "lb", LB: 0}, {Kind: "tick", DtSec: 301}, {Kind: "tick", DtSec: 301}})
			cadence(r, w)
			underTraffic(r, w)
		}
		x.BFSFrom(j.Prefix, j.Depth, menu(j), 600000, nil)
		r.Add("states", x.States)
		r.Add("transitions", x.Transitions)
		r.Add("traces_validated_against_impl", x.Builds)
		r.Sample(map[string]interface{}{"job": j.Name, "prefix": fmt.Sprint(j.Prefix), "depth_after_prefix": j.Depth, "states": x.States, "transitions": x.Transitions})
		if os.Getenv("VERIF_VERBOSE") != "" {
			fmt.Fprintf(os.Stderr, "%s depth=%d states=%d transitions=%d builds=%d %.1fs\n", j.Name, j.Depth, x.States, x.Transitions, x.Builds, time.Since(t0).Seconds())
		}
	}
	r.Finish()
}

func replay(r *ev.Run, path string) {
	b, err := os.ReadFile(path)
	if err != nil {
		ev.Broken("%v", err)
	}
	var art struct {
		Replay proch.Replay `json:"replay"`
	}
	if err := json.Unmarshal(b, &art); err != nil {
		ev.Broken("%v", err)
	}
	w := proch.NewWorld()
	x := &proch.Explorer{R: r, W: w, C: &art.Replay.Config, Oracles: map[string]bool{}, WithTimes: true}
	o := &oracle{r: r, x: x}
	x.BeforeStep, x.OnStep = o.before, o.after
	x.Run(art.Replay.History).Close()
	fmt.Printf("replayed %v: %d violations\n", art.Replay.Pretty, r.Violations())
	if r.Violations() > 0 {
		os.Exit(1)
	}
	os.Exit(0)
}
