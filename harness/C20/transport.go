package main

// Transport part: the spy service behind the REAL gRPC server the node builds (common.NewInstrumentedGRPCServer,
// with whatever options and interceptors it sets), reached by a real gRPC client over an in-memory listener:
// three streams of one client connection (unfiltered, emitter A, emitter B) and published VAAs of 64 B .. 900 KiB
// (gossip allows up to 1 MiB). Every subscriber must receive, byte for byte and in order, exactly the VAAs
// that match its filters; a per-filter sentinel ends each stream's reading.

import (
	"bytes"
	"context"
	"encoding/hex"
	"fmt"
	"net"
	"strings"
	"time"

	"github.com/alephium/wormhole-fork/node/cmd/spy"
	"github.com/alephium/wormhole-fork/node/pkg/common"
	publicrpcv1 "github.com/alephium/wormhole-fork/node/pkg/proto/publicrpc/v1"
	spyv1 "github.com/alephium/wormhole-fork/node/pkg/proto/spy/v1"
	"github.com/alephium/wormhole-fork/node/pkg/vaa"
	"github.com/alephium/wormhole-fork/node/verifh/ev"
	"github.com/alephium/wormhole-fork/node/verifh/quiesce"
	"go.uber.org/zap"
	"google.golang.org/grpc"
	"google.golang.org/grpc/credentials/insecure"
	"google.golang.org/grpc/test/bufconn"
)

func bigVAA(e emitter, seq uint64, payload int) []byte {
	v := &vaa.VAA{Version: 1, Timestamp: time.Unix(1700000000, 0), Sequence: seq, EmitterChain: e.chain, EmitterAddress: e.addr, TargetChain: 255, Payload: bytes.Repeat([]byte{byte(seq)}, payload)}
	b, _ := v.Marshal()
	return b
}

func transport() {
	lis := bufconn.Listen(4 << 20)
	srv := common.NewInstrumentedGRPCServer(zap.NewNop())
	s := spy.VerifNewSpyServer()
	spyv1.RegisterSpyRPCServiceServer(srv, s)
	go srv.Serve(lis)
	defer srv.Stop()
	conn, err := grpc.DialContext(context.Background(), "bufnet", grpc.WithContextDialer(func(context.Context, string) (net.Conn, error) { return lis.Dial() }), grpc.WithTransportCredentials(insecure.NewCredentials()))
	if err != nil {
		ev.Broken("dial: %v", err)
	}
	defer conn.Close()
	cl := spyv1.NewSpyRPCServiceClient(conn)
	filt := func(e emitter) []*spyv1.FilterEntry {
		return []*spyv1.FilterEntry{{Filter: &spyv1.FilterEntry_EmitterFilter{EmitterFilter: &spyv1.EmitterFilter{ChainId: publicrpcv1.ChainID(e.chain), EmitterAddress: hex.EncodeToString(e.addr[:])}}}}
	}
	a, b := emitters[0], emitters[1]
	type subT struct {
		name     string
		filters  []*spyv1.FilterEntry
		match    func(e emitter) bool
		sentinel []byte
		got      [][]byte
		err      error
		done     chan struct{}
	}
	sentA, sentB := bigVAA(a, 9001, 3), bigVAA(b, 9002, 3)
	subs := []*subT{
		{name: "unfiltered", match: func(emitter) bool { return true }, sentinel: sentB},
		{name: "filter A", filters: filt(a), match: func(e emitter) bool { return e == a }, sentinel: sentA},
		{name: "filter B", filters: filt(b), match: func(e emitter) bool { return e == b }, sentinel: sentB},
	}
	ctx, cancel := context.WithCancel(context.Background())
	defer cancel()
	for _, sb := range subs {
		sb := sb
		st, err := cl.SubscribeSignedVAA(ctx, &spyv1.SubscribeSignedVAARequest{Filters: sb.filters})
		if err != nil {
			ev.Broken("subscribe: %v", err)
		}
		sb.done = make(chan struct{})
		go func() {
			defer close(sb.done)
			for {
				m, err := st.Recv()
				if err != nil {
					sb.err = err
					return
				}
				if bytes.Equal(m.VaaBytes, sb.sentinel) {
					return
				}
				sb.got = append(sb.got, m.VaaBytes)
			}
		}()
	}
	// registration is complete when the server's table has three entries (the handler registers before it blocks)
	for spins := 0; s.VerifSubs() < 3; spins++ {
		if spins > 30_000 { // harness safety (30 s for three in-process registrations), reported, not a crash of the check
			r.Violation("transport: three subscriptions of one client connection do not become three entries of the server's table", fmt.Sprintf("%d entries", s.VerifSubs()), nil)
			return
		}
		time.Sleep(time.Millisecond)
	}
	type pub struct {
		e emitter
		b []byte
	}
	var pubs []pub
	seq := uint64(1)
	for _, size := range []int{64, 4 << 10, 60 << 10, 64 << 10, 70 << 10, 256 << 10, 900 << 10} {
		for _, e := range []emitter{a, b} {
			pubs = append(pubs, pub{e, bigVAA(e, seq, size)})
			seq++
		}
	}
	pubs = append(pubs, pub{a, sentA}, pub{b, sentB})
	finished := make(chan struct{})
	go func() {
		defer close(finished)
		for _, p := range pubs {
			s.Publish(p.b)
		}
		for _, sb := range subs {
			<-sb.done
		}
	}()
	select {
	case <-finished:
	case <-time.After(time.Minute): // harness safety only
		r.Violation("transport: publishing through the real gRPC server does not complete (a subscriber never reached its sentinel)", "", nil)
		return
	}
	for _, sb := range subs {
		var want [][]byte
		for _, p := range pubs[:len(pubs)-2] {
			if sb.match(p.e) {
				want = append(want, p.b)
			}
		}
		if sb.name == "unfiltered" { // its sentinel is the last publication; sentA is an ordinary VAA for it
			want = append(want, sentA)
		}
		ok := sb.err == nil && len(sb.got) == len(want)
		for i := 0; ok && i < len(want); i++ {
			ok = bytes.Equal(sb.got[i], want[i])
		}
		r.Add("transport_deliveries_checked", len(want))
		if !ok {
			r.Violation("transport: a subscriber behind the node's real gRPC server did not receive exactly the published VAAs matching its filters", fmt.Sprintf("%s: got %d of %d, stream error: %v", sb.name, len(sb.got), len(want), sb.err), map[string]interface{}{"subscriber": sb.name, "sizes": "64 B .. 900 KiB"})
		}
	}
}

// crowd: "for every set of subscriptions" also means large ones. n subscribers (no filter / one emitter / two
// emitters, in turn) connect one after the other, three VAAs are published, then every subscriber disconnects.
// A subscription the server refuses with an error is simply not connected (not judged); everything else is:
// Publish returns, every connected subscriber has exactly its matching VAAs, every removal completes and the
// table ends empty. Quiescence and blocking are decided by goroutine states, as in the search.
func crowd() {
	for _, n := range []int{16, 63, 64, 65, 66, 100, 128, 129, 300, 1100} {
		srv := spy.VerifNewSpyServer()
		type sub struct {
			st      *stream
			filters []int
			done    chan error
			refused bool
			want    []string
		}
		var subs []*sub
		wait := func() []quiesce.Goroutine {
			gs, ok := quiesce.Wait(quiesce.Options{Ignore: ignore})
			if !ok {
				ev.Broken("crowd: spy server does not become quiescent")
			}
			return gs
		}
		bad := func(key, what string) {
			r.Violation("crowd of subscribers: "+key, fmt.Sprintf("%d subscribers: %s", n, what), map[string]interface{}{"subscribers": n})
		}
		ok := true
		for i := 0; i < n && ok; i++ {
			sb := &sub{st: newStreamFor(2 + i), filters: filterSets[[]int{0, 1, 3, 6}[i%4]], done: make(chan error, 1)}
			req := &spyv1.SubscribeSignedVAARequest{}
			for _, f := range sb.filters {
				req.Filters = append(req.Filters, &spyv1.FilterEntry{Filter: &spyv1.FilterEntry_EmitterFilter{EmitterFilter: &spyv1.EmitterFilter{
					ChainId: publicrpcv1.ChainID(emitters[f].chain), EmitterAddress: hex.EncodeToString(emitters[f].addr[:])}}})
			}
			go func() { sb.done <- srv.SubscribeSignedVAA(req, sb.st) }()
			wait()
			select {
			case err := <-sb.done:
				if err == nil {
					bad("a subscription ended without an error while its client is connected", fmt.Sprintf("subscriber %d", i))
					ok = false
				}
				sb.refused = true
			default:
				if sb.st.polled == 0 {
					bad("registration of a subscription does not complete", fmt.Sprintf("subscriber %d never reached its receive loop", i))
					ok = false
				}
			}
			subs = append(subs, sb)
		}
		r.Add("crowd_subscriptions", len(subs))
		for e := 0; e < 3 && ok; e++ {
			b := vaaBytes(emitters[e], uint64(100+e))
			for _, sb := range subs {
				if !sb.refused && matches(sb.filters, e) {
					sb.want = append(sb.want, hex.EncodeToString(b))
				}
			}
			done := make(chan error, 1)
			go func() { done <- srv.Publish(b) }()
			gs := wait()
			select {
			case err := <-done:
				if err != nil {
					bad("Publish of a valid VAA returns an error", err.Error())
					ok = false
				}
			default:
				bad("Publish does not return although every subscriber is reading", "parked: "+strings.Join(append(parked(gs, "Publish"), parked(gs, "SubscribeSignedVAA")...), ","))
				ok = false
			}
		}
		for i, sb := range subs {
			if !ok {
				break
			}
			sb.st.mu.Lock()
			got := append([]string{}, sb.st.got...)
			sb.st.mu.Unlock()
			if sb.refused {
				continue
			}
			if strings.Join(got, ",") != strings.Join(sb.want, ",") {
				bad("a subscriber did not receive exactly the VAAs matching its filters", fmt.Sprintf("subscriber %d (filters %s): got %d VAAs, want %d", i, describe(sb.filters), len(got), len(sb.want)))
				ok = false
			}
		}
		for _, sb := range subs {
			sb.st.cancel()
		}
		if ok {
			wait()
			for i, sb := range subs {
				if sb.refused {
					continue
				}
				select {
				case <-sb.done:
				default:
					bad("removal of a disconnected subscription does not complete", fmt.Sprintf("subscriber %d", i))
					ok = false
				}
				if !ok {
					break
				}
			}
			if ok && srv.VerifSubs() != 0 {
				bad("subscription table not empty after every subscriber disconnected", fmt.Sprintf("%d entries", srv.VerifSubs()))
			}
		}
		for k := 0; k < 50; k++ {
			srv.VerifUnblock()
			gs, _ := quiesce.Wait(quiesce.Options{Ignore: ignore, MaxSpins: 2000})
			if len(quiesce.Find(gs, "cmd/spy.(*spyServer).")) == 0 {
				break
			}
		}
	}
}
