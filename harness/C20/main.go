// C20: spy subscribers receive exactly the VAAs matching their filters, independently.
// Explicit-state search over subscribe / publish / stall / resume / disconnect histories against the
// real spyServer (Publish, SubscribeSignedVAA) with fake gRPC streams whose Send and Context are
// owned by the harness. One stimulus at a time; after each one quiescence is established by
// goroutine-state inspection. A Publish / Subscribe / removal goroutine that is still parked
// (chan send, sync.Mutex.Lock) at quiescence is the decided violation witness.
package main

import (
	"context"
	"encoding/hex"
	"encoding/json"
	"fmt"
	"os"
	"os/exec"
	"sort"
	"strings"
	"sync"
	"time"

	"github.com/alephium/wormhole-fork/node/cmd/spy"
	publicrpcv1 "github.com/alephium/wormhole-fork/node/pkg/proto/publicrpc/v1"
	spyv1 "github.com/alephium/wormhole-fork/node/pkg/proto/spy/v1"
	"github.com/alephium/wormhole-fork/node/pkg/vaa"
	"github.com/alephium/wormhole-fork/node/verifh/ev"
	"github.com/alephium/wormhole-fork/node/verifh/mc"
	"github.com/alephium/wormhole-fork/node/verifh/quiesce"
	"google.golang.org/grpc/metadata"
	"google.golang.org/grpc/peer"
)

var r *ev.Run

// ---- fixtures: VAAs of three emitters; the same 32-byte address appears under two chains
var (
	addrA = func() (a vaa.Address) { a[31] = 0xaa; return }()
	addrB = func() (a vaa.Address) { a[0] = 0xbb; return }()
)

type emitter struct {
	chain vaa.ChainID
	addr  vaa.Address
}

// the fourth emitter is the zero value of a filter: chain 0, all-zero address (no subscriber asks for it)
var emitters = []emitter{{2, addrA}, {4, addrA}, {2, addrB}, {0, vaa.Address{}}}

func vaaBytes(e emitter, seq uint64) []byte {
	v := &vaa.VAA{Version: 1, Timestamp: time.Unix(1700000000, 0), Sequence: seq, EmitterChain: e.chain, EmitterAddress: e.addr, TargetChain: 255, Payload: []byte{byte(seq), 1}}
	b, _ := v.Marshal()
	return b
}

// filter sets a subscriber may use (indices into emitters; nil = no filters = everything)
// -1 stands for a filter entry of a kind the server does not support (the oneof is unset, as a request from a
// newer client or a JSON body {"filters":[{}]} arrives): such a request asks for filtering the server cannot
// do - it must be refused, or at least must never be served as "no filter" (every VAA)
var filterSets = [][]int{nil, {0}, {1}, {2}, {0, 1}, {1, 0}, {2, 0}, {0, 0}, {-1}, {-1, -1}}

func matches(fs []int, e int) bool {
	if fs == nil {
		return true
	}
	for _, f := range fs {
		if f == e {
			return true
		}
	}
	return false
}

// ---- fake stream
type stream struct {
	mu       sync.Mutex
	ctx      context.Context
	cancel   context.CancelFunc
	stalled  bool
	release  chan struct{} // closed to let a parked Send continue
	got      []string      // hex of VAAs received, in order
	inSend   bool
	polled   int // Context() calls: the subscription loop has been entered at least once when > 0
}

type addr string

func (a addr) Network() string { return "tcp" }
func (a addr) String() string  { return string(a) }

// peerOf: subscribers 0 and 1 are two streams of ONE client connection (same peer address, as gRPC
// multiplexes streams), subscriber 2 comes from another connection.
func peerOf(i int) string {
	if i <= 1 {
		return "10.0.0.1:50051"
	}
	return "10.0.0.2:40404"
}

func newStreamFor(i int) *stream {
	base := peer.NewContext(context.Background(), &peer.Peer{Addr: addr(peerOf(i))})
	ctx, c := context.WithCancel(base)
	return &stream{ctx: ctx, cancel: c, release: make(chan struct{})}
}

func newStream() *stream {
	ctx, c := context.WithCancel(context.Background())
	return &stream{ctx: ctx, cancel: c, release: make(chan struct{})}
}

func (s *stream) Send(m *spyv1.SubscribeSignedVAAResponse) error {
	s.mu.Lock()
	st, rel := s.stalled, s.release
	s.inSend = true
	s.mu.Unlock()
	if st {
		select { // a subscriber that stopped reading: Send does not return until resumed or disconnected
		case <-rel:
		case <-s.ctx.Done():
			s.mu.Lock()
			s.inSend = false
			s.mu.Unlock()
			return s.ctx.Err()
		}
	}
	s.mu.Lock()
	s.got = append(s.got, hex.EncodeToString(m.VaaBytes))
	s.inSend = false
	s.mu.Unlock()
	return nil
}
func (s *stream) Context() context.Context {
	s.mu.Lock()
	s.polled++
	s.mu.Unlock()
	return s.ctx
}
func (s *stream) SetHeader(metadata.MD) error  { return nil }
func (s *stream) SendHeader(metadata.MD) error { return nil }
func (s *stream) SetTrailer(metadata.MD)       {}
func (s *stream) SendMsg(interface{}) error    { return nil }
func (s *stream) RecvMsg(interface{}) error    { return nil }

// ---- alphabet
type event struct {
	Kind string `json:"kind"` // sub | pub | stall | resume | disc
	I    int    `json:"i,omitempty"`
	F    int    `json:"f,omitempty"` // filter set index
	E    int    `json:"e,omitempty"` // emitter index of the published VAA
}

func (e event) String() string {
	switch e.Kind {
	case "sub":
		return fmt.Sprintf("Sub(%d,filters=%v)", e.I, filterSets[e.F])
	case "pub":
		return fmt.Sprintf("Pub(emitter %d)", e.E)
	}
	return fmt.Sprintf("%s(%d)", e.Kind, e.I)
}

type config struct {
	Name     string  `json:"name"`
	NSubs    int     `json:"subscribers"`
	Alphabet []event `json:"alphabet"`
}

type subState struct {
	st       *stream
	filters  []int
	fidx     int
	active   bool
	gone     bool
	expected []string // VAAs published while subscribed that match its filters
	done     chan error
	gid      int
}

type sys struct {
	cfg  *config
	srv  *spy.VerifSpyServer
	subs []*subState
	seq  uint64
	dead bool
}

func newSys(cfg *config) *sys {
	s := &sys{cfg: cfg, srv: spy.VerifNewSpyServer()}
	for i := 0; i < cfg.NSubs; i++ {
		s.subs = append(s.subs, &subState{})
	}
	return s
}

func (s *sys) Dead() bool { return s.dead }

func (s *sys) Close() {
	// release everything so that goroutines of this instance end
	for _, sb := range s.subs {
		if sb.st != nil {
			sb.st.mu.Lock()
			sb.st.stalled = false
			sb.st.mu.Unlock()
			sb.st.cancel()
		}
	}
	for i := 0; i < 50; i++ {
		s.srv.VerifUnblock()
		gs, _ := quiesce.Wait(quiesce.Options{Ignore: ignore, MaxSpins: 2000})
		if len(quiesce.Find(gs, "cmd/spy.(*spyServer).")) == 0 {
			break
		}
	}
}

func ignore(g quiesce.Goroutine) bool { return !g.Has("cmd/spy.") }

func (s *sys) viol(key, what string, hist []int) {
	var pretty []string
	var evs []event
	for _, i := range hist {
		pretty = append(pretty, s.cfg.Alphabet[i].String())
		evs = append(evs, s.cfg.Alphabet[i])
	}
	r.Violation(key, what+"  history: "+strings.Join(pretty, " "), map[string]interface{}{"config": s.cfg, "history": hist, "events": evs})
}

// parkedStates summarises where the server's goroutines are parked.
func parked(gs []quiesce.Goroutine, fn string) []string {
	var out []string
	for _, g := range gs {
		if g.Has("cmd/spy.(*spyServer)." + fn) {
			out = append(out, g.State)
		}
	}
	return out
}

func (s *sys) quiesce() []quiesce.Goroutine {
	gs, ok := quiesce.Wait(quiesce.Options{Ignore: ignore})
	if !ok {
		ev.Broken("spy server does not become quiescent")
	}
	return gs
}

func (s *sys) Enabled() []int {
	var out []int
	for i, e := range s.cfg.Alphabet {
		switch e.Kind {
		case "sub":
			if !s.subs[e.I].active && !s.subs[e.I].gone {
				out = append(out, i)
			}
		case "pub":
			out = append(out, i)
		case "stall":
			if s.subs[e.I].active && !s.subs[e.I].st.stalled {
				out = append(out, i)
			}
		case "resume":
			if s.subs[e.I].active && s.subs[e.I].st.stalled {
				out = append(out, i)
			}
		case "disc":
			if s.subs[e.I].active {
				out = append(out, i)
			}
		}
	}
	return out
}

func (s *sys) Apply(ei int, hist []int, check bool) {
	defer s.judgeTable(hist, check)
	e := s.cfg.Alphabet[ei]
	switch e.Kind {
	case "sub":
		sb := s.subs[e.I]
		sb.st, sb.filters, sb.fidx, sb.active, sb.done = newStreamFor(e.I), filterSets[e.F], e.F, true, make(chan error, 1)
		req := &spyv1.SubscribeSignedVAARequest{}
		unsupported := false
		for _, f := range sb.filters {
			if f < 0 {
				req.Filters = append(req.Filters, &spyv1.FilterEntry{})
				unsupported = true
				continue
			}
			req.Filters = append(req.Filters, &spyv1.FilterEntry{Filter: &spyv1.FilterEntry_EmitterFilter{EmitterFilter: &spyv1.EmitterFilter{
				ChainId: publicrpcv1.ChainID(emitters[f].chain), EmitterAddress: hex.EncodeToString(emitters[f].addr[:])}}})
		}
		gid := make(chan int, 1)
		go func() { gid <- quiesce.SelfID(); sb.done <- s.srv.SubscribeSignedVAA(req, sb.st) }()
		gs := s.quiesce()
		sb.gid = <-gid
		if unsupported {
			select {
			case err := <-sb.done:
				// refused (or ended): this subscriber is not connected
				sb.active, sb.gone = false, true
				if err == nil && check {
					s.viol("a subscription request with only unsupported filter entries ended without an error", "", hist)
				}
				return
			default:
				// accepted: from here on it is a connected subscriber whose filters match nothing
			}
		}
		if sb.st.polled == 0 { // never reached its receive loop
			s.dead = true
			if check {
				g, _ := quiesce.ByID(gs, sb.gid)
				s.viol("registration of a subscription does not complete (parked in "+g.State+")", "", hist)
			}
		}
	case "stall":
		s.subs[e.I].st.mu.Lock()
		s.subs[e.I].st.stalled = true
		s.subs[e.I].st.mu.Unlock()
	case "resume":
		st := s.subs[e.I].st
		st.mu.Lock()
		st.stalled = false
		close(st.release)
		st.release = make(chan struct{})
		st.mu.Unlock()
		s.quiesce()
		s.judgeDelivery(hist, check)
	case "disc":
		sb := s.subs[e.I]
		sb.st.cancel()
		gs := s.quiesce()
		select {
		case <-sb.done:
			sb.active, sb.gone = false, true
		default:
			s.dead = true
			if check {
				g, _ := quiesce.ByID(gs, sb.gid)
				s.viol("removal of a disconnected subscription does not complete (parked in "+g.State+")", "", hist)
			}
		}
	case "pub":
		s.seq++
		b := vaaBytes(emitters[e.E], s.seq)
		hx := hex.EncodeToString(b)
		// how many matching VAAs a subscriber that has stopped reading was already holding up (being written +
		// queued) before this publish: the unchanged server gives every subscriber room for two
		waiting := -1
		for _, sb := range s.subs {
			if sb.active && matches(sb.filters, e.E) {
				sb.st.mu.Lock()
				if sb.st.stalled {
					if n := len(sb.expected) - len(sb.st.got); n > waiting {
						waiting = n
					}
				}
				sb.st.mu.Unlock()
				sb.expected = append(sb.expected, hx)
			}
		}
		done := make(chan error, 1)
		gid := make(chan int, 1)
		go func() { gid <- quiesce.SelfID(); done <- s.srv.Publish(b) }()
		gs := s.quiesce()
		select {
		case err := <-done:
			if err != nil && check {
				s.viol("Publish of a valid VAA returns an error", err.Error(), hist)
			}
		default:
			s.dead = true
			if check {
				st := "?"
				if g, ok := quiesce.ByID(gs, <-gid); ok {
					st = g.State
				}
				var who []string
				for i, sb := range s.subs {
					if sb.active && sb.st.stalled {
						who = append(who, fmt.Sprint(i))
					}
				}
				s.viol(fmt.Sprintf("Publish does not return: parked in %s while a subscriber has stopped reading and %d matching VAAs were already waiting for it (delivery to the other subscribers and all later publishes, registrations and removals wait behind it)", st, waiting), "stalled subscribers: "+strings.Join(who, ","), hist)
			}
			return
		}
		s.judgeDelivery(hist, check)
	}
}

// judgeDelivery: every subscriber that is reading has received exactly the matching VAAs published
// while it was subscribed (set semantics; multiplicity reported, not judged).
func (s *sys) judgeDelivery(hist []int, check bool) {
	if !check {
		return
	}
	for i, sb := range s.subs {
		if !sb.active || sb.st.stalled {
			continue
		}
		sb.st.mu.Lock()
		got := append([]string{}, sb.st.got...)
		sb.st.mu.Unlock()
		gotSet, wantSet := map[string]int{}, map[string]bool{}
		for _, g := range got {
			gotSet[g]++
		}
		for _, w := range sb.expected {
			wantSet[w] = true
		}
		for w := range wantSet {
			if gotSet[w] == 0 {
				s.viol("a reading subscriber did not receive a published VAA that matches its filters", fmt.Sprintf("subscriber %d filters %v", i, describe(sb.filters)), hist)
			}
		}
		for g, n := range gotSet {
			if !wantSet[g] {
				s.viol("a subscriber received a VAA that matches none of its filters", fmt.Sprintf("subscriber %d filters %v", i, describe(sb.filters)), hist)
			}
			if n > 1 {
				r.Add("duplicate_deliveries_reported_not_judged", 1)
			}
		}
	}
}

func describe(fs []int) string {
	if fs == nil {
		return "none"
	}
	var out []string
	for _, f := range fs {
		if f < 0 {
			out = append(out, "(unsupported entry)")
			continue
		}
		out = append(out, fmt.Sprintf("(chain %d, %x..)", emitters[f].chain, emitters[f].addr[:1]))
	}
	return strings.Join(out, " ")
}

func (s *sys) Key() string {
	var ks []string
	for i, sb := range s.subs {
		switch {
		case sb.gone:
			ks = append(ks, fmt.Sprintf("%d:gone", i))
		case !sb.active:
			ks = append(ks, fmt.Sprintf("%d:-", i))
		default:
			sb.st.mu.Lock()
			// what matters for the future: filter set, stalled, how many matching VAAs are still undelivered
			pendingN := len(uniq(sb.expected)) - len(uniq(sb.st.got))
			ks = append(ks, fmt.Sprintf("%d:f%d:stalled=%v:insend=%v:pending=%d", i, sb.fidx, sb.st.stalled, sb.st.inSend, pendingN))
			sb.st.mu.Unlock()
		}
	}
	if !s.dead {
		ks = append(ks, fmt.Sprintf("live=%d", s.srv.VerifSubs()))
	}
	return strings.Join(ks, "|")
}

// bookkeeping: the server's subscription table has exactly one entry per connected subscriber.
func (s *sys) judgeTable(hist []int, check bool) {
	if !check || s.dead {
		return
	}
	want := 0
	for _, sb := range s.subs {
		if sb.active {
			want++
		}
	}
	if got := s.srv.VerifSubs(); got != want {
		s.viol("subscription table out of step with the connected subscribers", fmt.Sprintf("%d live subscriptions, %d connected subscribers", got, want), hist)
	}
}

func uniq(a []string) []string {
	m := map[string]bool{}
	var out []string
	for _, x := range a {
		if !m[x] {
			m[x] = true
			out = append(out, x)
		}
	}
	sort.Strings(out)
	return out
}

func configs() []config {
	mk := func(name string, n int, fsets []int, pubs []int, withStall bool) config {
		c := config{Name: name, NSubs: n}
		for i := 0; i < n; i++ {
			for _, f := range fsets {
				c.Alphabet = append(c.Alphabet, event{Kind: "sub", I: i, F: f})
			}
		}
		for _, p := range pubs {
			c.Alphabet = append(c.Alphabet, event{Kind: "pub", E: p})
		}
		for i := 0; i < n; i++ {
			if withStall {
				c.Alphabet = append(c.Alphabet, event{Kind: "stall", I: i}, event{Kind: "resume", I: i})
			}
			c.Alphabet = append(c.Alphabet, event{Kind: "disc", I: i})
		}
		return c
	}
	return []config{
		mk("filters-2subs", 2, []int{0, 1, 2, 4, 5, 6, 7}, []int{0, 1, 2, 3}, false),
		mk("unsupported-filters-2subs", 2, []int{0, 1, 8, 9}, []int{0, 1}, false),
		mk("filters-3subs", 3, []int{0, 1, 4}, []int{0, 1}, false),
		mk("stall-2subs", 2, []int{0, 1, 3}, []int{0, 2}, true),
		mk("stall-3subs", 3, []int{0, 2}, []int{0}, true),
		mk("lifecycle-3subs", 3, []int{0}, []int{0}, false),
	}
}

func main() {
	r = ev.Start("C20", "model_checking")
	cfgs := configs()
	if len(os.Args) > 2 && os.Args[1] == "--replay" {
		replay(os.Args[2])
		return
	}
	if os.Getenv("VERIF_RACE_RUN") != "" {
		racePass(cfgs)
		return
	}
	si, sn, worker := ev.Shard()
	if !worker {
		transport()
		crowd()
		r.Fork(len(cfgs), nil, nil)
		if exe := os.Getenv("VERIF_RACE_EXE"); exe != "" {
			rctx, rcancel := context.WithTimeout(context.Background(), 5*time.Minute) // harness safety only
			cmd := exec.CommandContext(rctx, exe)
			cmd.Env = append(os.Environ(), "VERIF_RACE_RUN=1", "GOMAXPROCS=8", "GORACE=halt_on_error=0")
			out, _ := cmd.CombinedOutput()
			if rctx.Err() != nil {
				r.Cap("free-running -race pass was cut off after 5 minutes")
			}
			rcancel()
			n := strings.Count(string(out), "WARNING: DATA RACE")
			r.Set("race_pass_reports", n)
			if n > 0 {
				i := strings.Index(string(out), "WARNING: DATA RACE")
				r.Violation("data race in the spy server (free-running -race pass of the same harness bodies)", string(out[i:imin(len(out), i+1500)]), nil)
			}
		}
		r.Set("rule", "state key = per subscriber (filter set, reading/stalled/gone, inside Send, number of matching VAAs still undelivered); every transition on the real server, judged after quiescence")
		r.Assume("a subscriber that stopped reading is a stream whose Send does not return; a disconnect cancels the stream context (and makes a parked Send return an error), as gRPC does")
		r.Assume("finer-than-one-stimulus interleavings are not explored; the thorough tier adds a free-running -race pass of the same bodies")
		r.Finish()
		return
	}
	depth := r.Pick(8, 10)
	for i := range cfgs {
		if i%sn != si {
			continue
		}
		c := &cfgs[i]
		t0 := time.Now()
		d := depth
		if len(c.Alphabet) > 16 {
			d = depth - 1
		}
		st := mc.BFS(func() mc.Sys { return newSys(c) }, nil, d, 300000, nil)
		r.Add("states", st.States)
		r.Add("transitions", st.Transitions)
		r.Add("traces_validated_against_impl", st.Builds)
		if st.Capped {
			r.Cap("state cap in " + c.Name)
		}
		r.Sample(map[string]interface{}{"config": c.Name, "depth": d, "alphabet_size": len(c.Alphabet), "states": st.States, "transitions": st.Transitions})
		if os.Getenv("VERIF_VERBOSE") != "" {
			fmt.Fprintf(os.Stderr, "%s depth=%d states=%d transitions=%d builds=%d %.1fs\n", c.Name, d, st.States, st.Transitions, st.Builds, time.Since(t0).Seconds())
		}
	}
	r.Finish()
}

// racePass: the same operations with no control at all (real concurrency), only DATA RACE reports count.
func racePass(cfgs []config) {
	for round := 0; round < 200; round++ {
		srv := spy.VerifNewSpyServer()
		var wg sync.WaitGroup
		var streams []*stream
		for i := 0; i < 3; i++ {
			st := newStream()
			streams = append(streams, st)
			wg.Add(1)
			go func(i int) {
				defer wg.Done()
				req := &spyv1.SubscribeSignedVAARequest{}
				if i > 0 {
					req.Filters = []*spyv1.FilterEntry{{Filter: &spyv1.FilterEntry_EmitterFilter{EmitterFilter: &spyv1.EmitterFilter{ChainId: 2, EmitterAddress: hex.EncodeToString(addrA[:])}}}}
				}
				srv.SubscribeSignedVAA(req, st)
			}(i)
		}
		// publishers are not waited for: a Publish that raced with a departing subscriber stays parked
		// (the recorded known finding); the pass only collects DATA RACE reports
		for p := 0; p < 5; p++ {
			go func(p int) { srv.Publish(vaaBytes(emitters[p%3], uint64(p))) }(p)
		}
		time.Sleep(2 * time.Millisecond)
		for _, st := range streams {
			st.cancel()
		}
		wg.Wait()
	}
	os.Exit(0)
}

func imin(a, b int) int {
	if a < b {
		return a
	}
	return b
}

func replay(path string) {
	b, err := os.ReadFile(path)
	if err != nil {
		ev.Broken("%v", err)
	}
	var art struct {
		Replay struct {
			Config  config `json:"config"`
			History []int  `json:"history"`
		} `json:"replay"`
	}
	if err := json.Unmarshal(b, &art); err != nil {
		ev.Broken("%v", err)
	}
	s := newSys(&art.Replay.Config)
	for i, e := range art.Replay.History {
		s.Apply(e, art.Replay.History[:i+1], true)
	}
	fmt.Printf("replayed: %d violations\n", r.Violations())
	if r.Violations() > 0 {
		os.Exit(1)
	}
	os.Exit(0)
}
