// C19: the explorer ingests only VAAs verified against the guardian set they name.
// (A) explicit-state search over Push / Append / Drain histories of the real vaaGossipConsumer, the
// real Deduplicator (synchronous go-cache store) and the real GuardianSets; (B) statement-level
// interleavings of GetGuardianSet / GetCurrentGuardianSet against updateGuardianSets under a
// cooperative scheduler (scheduling point before every statement of gst_data.go, lock shim).
package main

import (
	"context"
	"encoding/binary"
	"fmt"
	"net/http"
	"net/http/httptest"
	"os"
	"os/exec"
	"runtime"
	"sort"
	"strings"
	"sync"
	"sync/atomic"
	"time"

	"github.com/alephium/wormhole-fork/explorer-backend/deduplicator"
	"github.com/alephium/wormhole-fork/explorer-backend/guardiansets"
	"github.com/alephium/wormhole-fork/explorer-backend/processor"
	"github.com/alephium/wormhole-fork/explorer-backend/verifh/ev"
	"github.com/alephium/wormhole-fork/explorer-backend/verifh/keys"
	"github.com/alephium/wormhole-fork/explorer-backend/verifh/mc"
	"github.com/alephium/wormhole-fork/explorer-backend/verifh/vsched"
	"github.com/alephium/wormhole-fork/node/pkg/common"
	"github.com/alephium/wormhole-fork/node/pkg/vaa"
	"github.com/eko/gocache/v3/cache"
	"github.com/eko/gocache/v3/store"
	ethcommon "github.com/ethereum/go-ethereum/common"
	"github.com/ethereum/go-ethereum/crypto"
	gocache "github.com/patrickmn/go-cache"
	"go.uber.org/zap"
)

var r *ev.Run

const nGuardians = 3

// set i has keys 10i, 10i+1, 10i+2 (disjoint sets, so a signature made for one never verifies under another)
func setKeys(i int) []int { return []int{10 * i, 10*i + 1, 10*i + 2} }
func mkSet(i int) *common.GuardianSet {
	return &common.GuardianSet{Index: uint32(i), Keys: keys.Addrs(setKeys(i)...)}
}

func body(seq uint64) *vaa.VAA {
	v := &vaa.VAA{Version: 1, Timestamp: time.Unix(1700000000, 0), Sequence: seq, EmitterChain: 2, TargetChain: 255, Payload: []byte{1, byte(seq)}}
	v.EmitterAddress[31] = 7
	return v
}

func ownDigest(v *vaa.VAA) []byte {
	b := make([]byte, 53)
	binary.BigEndian.PutUint32(b[0:], uint32(v.Timestamp.Unix()))
	binary.BigEndian.PutUint32(b[4:], v.Nonce)
	binary.BigEndian.PutUint16(b[8:], uint16(v.EmitterChain))
	binary.BigEndian.PutUint16(b[10:], uint16(v.TargetChain))
	copy(b[12:44], v.EmitterAddress[:])
	binary.BigEndian.PutUint64(b[44:], v.Sequence)
	b[52] = v.ConsistencyLevel
	return crypto.Keccak256(crypto.Keccak256(append(b, v.Payload...)))
}

// verifies: independent check of v against the TRUE set with index v.GuardianSetIndex
func verifies(v *vaa.VAA, maxKnown int) bool {
	i := int(v.GuardianSetIndex)
	if i > maxKnown {
		return false
	}
	set := keys.Addrs(setKeys(i)...)
	if len(v.Signatures) < 2*len(set)/3+1 {
		return false
	}
	last := -1
	d := ownDigest(v)
	for _, s := range v.Signatures {
		if int(s.Index) >= len(set) || int(s.Index) <= last {
			return false
		}
		last = int(s.Index)
		pk, err := crypto.Ecrecover(d, s.Signature[:])
		if err != nil || ethcommon.BytesToAddress(crypto.Keccak256(pk[1:])[12:]) != set[s.Index] {
			return false
		}
	}
	return true
}

type event struct {
	Kind  string `json:"kind"` // push | append | drain
	Var   string `json:"variant,omitempty"`
	Named int    `json:"named_set,omitempty"` // push: relative: 0 = current, -1 = previous, +1 = future, -9 = set 0
	Batch []int  `json:"batch,omitempty"`     // append: offsets relative to current index
	Seq   uint64 `json:"seq,omitempty"`
}

func (e event) String() string {
	switch e.Kind {
	case "push":
		return fmt.Sprintf("Push(%s,names=cur%+d,seq=%d)", e.Var, e.Named, e.Seq)
	case "append":
		return fmt.Sprintf("Append(cur+%v)", e.Batch)
	}
	return "Drain"
}

var alphabet = func() []event {
	var a []event
	for _, v := range []string{"quorum", "quorum-1", "wrong-signer", "signed-by-other-set", "descending"} {
		for _, n := range []int{0, -1} {
			a = append(a, event{Kind: "push", Var: v, Named: n, Seq: 1})
		}
	}
	a = append(a, event{Kind: "push", Var: "quorum", Named: 0, Seq: 2}, event{Kind: "push", Var: "quorum", Named: -9, Seq: 3}, event{Kind: "push", Var: "quorum", Named: 1, Seq: 4})
	for _, b := range [][]int{{1}, {1, 2}, {0, 1}, {-1, 0, 1, 2}, {2}, {2, 3}, {0}, {}} {
		a = append(a, event{Kind: "append", Batch: b})
	}
	a = append(a, event{Kind: "drain"})
	return a
}()

type sys struct {
	gs   *guardiansets.GuardianSets
	cons interface {
		Push(context.Context, *vaa.VAA, []byte) error
	}
	queue   chan *processor.Message
	cap     int
	seenOK  map[string]bool // message ids handed off successfully (harness record)
	failed  map[string]bool // verified VAAs whose hand-off failed at least once
	dead    bool
	maxTrue int // highest set index that legitimately exists (fixtures exist for every index)
}

func newSys(capacity int) *sys {
	c := gocache.New(5*time.Minute, 10*time.Minute)
	ch := cache.New[bool](store.NewGoCache(c))
	gsC := make(chan *common.GuardianSet, 1024)
	gs := guardiansets.NewGuardianSets([]*common.GuardianSet{mkSet(0), mkSet(1)}, "/nonexistent/verif.ipc", zap.NewNop(), time.Hour, ethcommon.Address{}, gsC)
	q := make(chan *processor.Message, capacity)
	return &sys{gs: gs, cons: processor.NewVAAGossipConsumer(gs, deduplicator.New(ch, zap.NewNop()), q, zap.NewNop()), queue: q, cap: capacity, seenOK: map[string]bool{}, failed: map[string]bool{}}
}

func (s *sys) Close()     {}
func (s *sys) Dead() bool { return s.dead }
func (s *sys) Enabled() []int {
	out := make([]int, len(alphabet))
	for i := range out {
		out[i] = i
	}
	return out
}

func (s *sys) mkVAA(e event) *vaa.VAA {
	cur := s.gs.VerifCurrentIndex()
	named := cur + e.Named
	if e.Named == -9 {
		named = 0
	}
	if named < 0 {
		named = 0
	}
	v := body(e.Seq)
	v.GuardianSetIndex = uint32(named)
	ks := setKeys(named)
	d := ownDigest(v)
	sig := func(idx, key int) *vaa.Signature {
		sg := &vaa.Signature{Index: uint8(idx)}
		copy(sg.Signature[:], keys.Sign(key, d))
		return sg
	}
	switch e.Var {
	case "quorum":
		v.Signatures = []*vaa.Signature{sig(0, ks[0]), sig(1, ks[1]), sig(2, ks[2])}
	case "quorum-1":
		v.Signatures = []*vaa.Signature{sig(0, ks[0]), sig(2, ks[2])}
	case "wrong-signer":
		v.Signatures = []*vaa.Signature{sig(0, ks[0]), sig(1, 9999), sig(2, ks[2])}
	case "signed-by-other-set":
		o := setKeys(named + 1)
		if named > 0 {
			o = setKeys(named - 1)
		}
		v.Signatures = []*vaa.Signature{sig(0, o[0]), sig(1, o[1]), sig(2, o[2])}
	case "descending":
		v.Signatures = []*vaa.Signature{sig(2, ks[2]), sig(1, ks[1]), sig(0, ks[0])}
	}
	return v
}

func (s *sys) viol(key, what string, hist []int) {
	var pretty []string
	for _, i := range hist {
		pretty = append(pretty, alphabet[i].String())
	}
	r.Violation(key, what+"  history: "+strings.Join(pretty, " ")+fmt.Sprintf("  [queue capacity %d]", s.cap), map[string]interface{}{"queue_capacity": s.cap, "history": hist, "events": pretty})
}

func (s *sys) Apply(ei int, hist []int, check bool) {
	e := alphabet[ei]
	defer func() {
		if p := recover(); p != nil {
			s.dead = true
			if check {
				s.viol("panic in the explorer backend: "+fmt.Sprint(p), "", hist)
			}
		}
	}()
	switch e.Kind {
	case "drain":
		for len(s.queue) > 0 {
			<-s.queue
		}
	case "append":
		cur := s.gs.VerifCurrentIndex()
		var batch []*common.GuardianSet
		for _, off := range e.Batch {
			if cur+off >= 0 {
				batch = append(batch, mkSet(cur+off))
			}
		}
		s.gs.VerifAppend(batch)
	case "push":
		v := s.mkVAA(e)
		b, _ := v.Marshal()
		before := len(s.queue)
		err := s.cons.Push(context.Background(), v, b)
		queued := len(s.queue) > before
		if check {
			ok := verifies(v, s.gs.VerifCurrentIndex())
			id := v.MessageID()
			switch {
			case queued && !ok:
				s.viol("a VAA that does not verify against the guardian set it names was queued for persistence ("+e.Var+")", fmt.Sprintf("names set %d", v.GuardianSetIndex), hist)
			case !queued && ok && !s.seenOK[id] && before < s.cap:
				s.viol("a verified VAA that was never handed off (or whose hand-off failed) was not queued although the queue has room", fmt.Sprintf("err=%v", err), hist)
			}
			if queued {
				// the queued message is this VAA
				var last *processor.Message
				n := len(s.queue)
				for i := 0; i < n; i++ {
					m := <-s.queue
					last = m
					s.queue <- m
				}
				if last.VerifVAA() != v {
					s.viol("queue received another message than the pushed VAA", "", hist)
				}
			}
		}
		if queued {
			s.seenOK[v.MessageID()] = true
		} else if verifies(v, s.gs.VerifCurrentIndex()) {
			s.failed[v.MessageID()] = true // a verified VAA whose hand-off failed: may have left traces in the deduplicator
		}
	}
	if check {
		// the set returned for index i is the set with index i, in every state
		lst := s.gs.VerifList()
		cur := s.gs.VerifCurrentIndex()
		for i := 0; i <= cur; i++ {
			var got *common.GuardianSet
			var err error
			func() {
				defer func() {
					if p := recover(); p != nil {
						err = fmt.Errorf("panic: %v", p)
					}
				}()
				got, err = s.gs.GetGuardianSet(context.Background(), i)
			}()
			if err != nil || got == nil || int(got.Index) != i {
				idx := -1
				if got != nil {
					idx = int(got.Index)
				}
				s.dead = true
				s.viol("GetGuardianSet(i) does not return the set with index i", fmt.Sprintf("i=%d got index %d err=%v; stored indices %v, current %d", i, idx, err, lst, cur), hist)
				return
			}
		}
		if c := s.gs.GetCurrentGuardianSet(); int(c.Index) != cur {
			s.viol("GetCurrentGuardianSet does not return the set with the current index", fmt.Sprint(c.Index, cur), hist)
		}
	}
}

func (s *sys) Key() string {
	var seen []string
	for k := range s.seenOK {
		seen = append(seen, k[len(k)-3:])
	}
	var fl []string
	for k := range s.failed {
		fl = append(fl, k[len(k)-3:])
	}
	sort.Strings(seen)
	sort.Strings(fl)
	return fmt.Sprintf("cur=%d list=%v q=%d seen=%v failed=%v", s.gs.VerifCurrentIndex(), s.gs.VerifList(), len(s.queue), seen, fl)
}

// ---- (B) statement-level interleavings
type coopCase struct {
	Name    string
	Readers []int   // indices looked up, relative to current (0 = current, 1 = the one being appended)
	Batches [][]int // one appender thread per batch (offsets relative to current)
	Current bool    // also a GetCurrentGuardianSet reader
}

func coop(bound int) (execs int, outcomes map[string]int) {
	outcomes = map[string]int{}
	cases := []coopCase{
		{"lookup-current vs append-next", []int{0}, [][]int{{1}}, false},
		{"lookup-next vs append-next", []int{1}, [][]int{{1}}, false},
		{"lookup-current+next vs append-two", []int{1, 2}, [][]int{{1, 2}}, false},
		{"current-set reader vs append-next", nil, [][]int{{1}}, true},
		{"lookup-next vs two appenders", []int{1}, [][]int{{1}, {1, 2}}, false},
		{"two appenders, overlapping batches", nil, [][]int{{1}, {1, 2}}, true},
		{"two appenders, same batch", nil, [][]int{{1, 2}, {1, 2}}, false},
		{"three appenders", nil, [][]int{{1}, {1, 2}, {2, 3}}, false},
	}
	for _, c := range cases {
		c := c
		type res struct {
			set *common.GuardianSet
			err error
			idx int
		}
		var results []*res
		var cur *guardiansets.GuardianSets
		mk := func() []func() {
			gsC := make(chan *common.GuardianSet, 1024)
			gs := guardiansets.NewGuardianSets([]*common.GuardianSet{mkSet(0), mkSet(1)}, "/nonexistent/verif.ipc", zap.NewNop(), time.Hour, ethcommon.Address{}, gsC)
			results = nil
			cur = gs
			var bodies []func()
			for _, off := range c.Readers {
				rr := &res{idx: 1 + off}
				results = append(results, rr)
				bodies = append(bodies, func() { rr.set, rr.err = gs.GetGuardianSet(context.Background(), rr.idx) })
			}
			if c.Current {
				rr := &res{idx: -1}
				results = append(results, rr)
				bodies = append(bodies, func() { rr.set = gs.GetCurrentGuardianSet() })
			}
			for _, b := range c.Batches {
				var batch []*common.GuardianSet
				for _, off := range b {
					batch = append(batch, mkSet(1+off))
				}
				bodies = append(bodies, func() { gs.VerifAppend(batch) })
			}
			return bodies
		}
		chk := func(e *vsched.Exec) {
			rec := map[string]interface{}{"case": c.Name, "schedule": e.Choices, "trace": e.Trace}
			if e.Deadlock || e.Livelock {
				r.Violation("deadlock or livelock between guardian-set lookup and append", c.Name, rec)
				outcomes["deadlock"]++
				return
			}
			for i := range e.Points[:0] {
				_ = i
			}
			nthreads := len(c.Readers) + len(c.Batches)
			if c.Current {
				nthreads++
			}
			for t := 0; t < nthreads; t++ {
				if p, _ := e.Panic(t); p != nil {
					r.Violation("panic during a guardian-set lookup concurrent with an append: "+trimAddr(fmt.Sprint(p)), c.Name+"  trace: "+strings.Join(e.Trace, " "), rec)
					outcomes["panic"]++
					return
				}
			}
			// after all threads have finished: the set stored at position i is the set with index i, and the
			// current index is the last position (appends of concurrent appenders must compose)
			lst, ci := cur.VerifList(), cur.VerifCurrentIndex()
			okList := ci == len(lst)-1
			for i, ix := range lst {
				okList = okList && int(ix) == i
			}
			if !okList {
				r.Violation("after concurrent appends the guardian-set list no longer maps index i to the set with index i", fmt.Sprintf("%s: stored indices %v, current %d  trace: %s", c.Name, lst, ci, strings.Join(e.Trace, " ")), rec)
				outcomes["corrupted-list"]++
				return
			}
			for _, rr := range results {
				switch {
				case rr.idx >= 0 && rr.set != nil && int(rr.set.Index) != rr.idx:
					r.Violation("a lookup concurrent with an append returned a set with another index", fmt.Sprintf("%s: asked %d got %d  trace: %s", c.Name, rr.idx, rr.set.Index, strings.Join(e.Trace, " ")), rec)
					outcomes["wrong-set"]++
				case rr.idx >= 0 && rr.set != nil:
					outcomes["set-with-index-asked"]++
				case rr.idx >= 0:
					outcomes["lookup-error(not yet known -> dial fails)"]++
				case rr.set == nil:
					r.Violation("GetCurrentGuardianSet returned nil during an append", c.Name, rec)
				default:
					outcomes[fmt.Sprintf("current=%d", rr.set.Index)]++
				}
			}
		}
		if bound >= 0 {
			n := vsched.Explore(mk, bound, chk)
			execs += n
			completed[c.Name] = bound
			r.Sample(map[string]interface{}{"interleaving_case": c.Name, "preemption_bound": bound, "schedules": n})
			continue
		}
		// thorough: iterate the preemption bound 0,1,2,... until a bound no longer completes within the
		// execution budget; the last COMPLETED bound is what is claimed for the case
		completed[c.Name] = -1
		for b := 0; b <= 12; b++ {
			n, complete := vsched.ExploreBudget(mk, b, 400000, chk)
			execs += n
			if !complete {
				r.Sample(map[string]interface{}{"interleaving_case": c.Name, "preemption_bound": b, "schedules": n, "complete": false})
				break
			}
			completed[c.Name] = b
			r.Sample(map[string]interface{}{"interleaving_case": c.Name, "preemption_bound": b, "schedules": n, "complete": true})
		}
	}
	return
}

var completed = map[string]int{}

func trimAddr(s string) string {
	if i := strings.Index(s, "0x"); i > 0 {
		return s[:i]
	}
	return s
}

func main() {
	r = ev.Start("C19", "model_checking")
	if os.Getenv("VERIF_RACE_RUN") != "" {
		racePass()
		return
	}
	depth := r.Pick(6, 8)
	for _, capacity := range []int{0, 1, 2} {
		capacity := capacity
		// determinism self-test
		st := mc.BFS(func() mc.Sys { return newSys(capacity) }, nil, depth, 400000, nil)
		r.Add("states", st.States)
		r.Add("transitions", st.Transitions)
		r.Add("traces_validated_against_impl", st.Builds)
		if st.Capped {
			r.Cap("state cap")
		}
		r.Sample(map[string]interface{}{"sequential_search_queue_capacity": capacity, "depth": depth, "states": st.States, "transitions": st.Transitions})
	}
	nsp := slowPath()
	r.Set("slow_path_scenarios", nsp)
	r.Add("traces_validated_against_impl", nsp)
	bound := r.Pick(2, -1)
	execs, outcomes := coop(bound)
	r.Add("transitions", execs)
	r.Set("interleaving_schedules", execs)
	r.Set("interleaving_outcomes", outcomes)
	r.Set("preemption_bound_completed_per_case", completed)
	if exe := os.Getenv("VERIF_RACE_EXE"); exe != "" {
		rctx, rcancel := context.WithTimeout(context.Background(), 5*time.Minute) // harness safety only
		cmd := exec.CommandContext(rctx, exe)
		cmd.Env = append(os.Environ(), "VERIF_RACE_RUN=1", "GORACE=halt_on_error=0")
		out, _ := cmd.CombinedOutput()
		if rctx.Err() != nil {
			r.Cap("free-running -race pass was cut off after 5 minutes")
		}
		rcancel()
		n := strings.Count(string(out), "WARNING: DATA RACE")
		r.Set("race_pass_reports", n)
		if n > 0 {
			i := strings.Index(string(out), "WARNING: DATA RACE")
			j := i + 1500
			if j > len(out) {
				j = len(out)
			}
			r.Violation("data race between guardian-set lookup and append (free-running -race pass)", string(out[i:j]), nil)
		}
	}
	r.Set("rule", "sequential part: state key = (current index, Index field of the set at every list position, queue length, number of ids handed off); interleaving part: every schedule of the thread bodies with scheduling points before every statement of gst_data.go and at the lock shim, preemption bound 2 (thorough: the bound is raised 0,1,2,... per case until a bound exceeds 400000 executions; the completed bound per case is reported)")
	r.Assume("production backs the deduplicator with ristretto (asynchronous, lossy); the harness uses the synchronous go-cache store as the repository's own test does; suppression of a handed-off id is reported, not judged")
	r.Assume("a lookup of a not yet known index fails at the dial (ipc path that does not exist)")
	r.Assume("memory-model effects below statement granularity are covered only by the free-running -race pass (thorough)")
	r.Finish()
}

func racePass() {
	for round := 0; round < 300; round++ {
		gsC := make(chan *common.GuardianSet, 1024)
		gs := guardiansets.NewGuardianSets([]*common.GuardianSet{mkSet(0), mkSet(1)}, "/nonexistent/verif.ipc", zap.NewNop(), time.Hour, ethcommon.Address{}, gsC)
		var wg sync.WaitGroup
		wg.Add(3)
		go func() { defer wg.Done(); gs.VerifAppend([]*common.GuardianSet{mkSet(2), mkSet(3)}) }()
		go func() {
			defer wg.Done()
			defer func() { recover() }()
			gs.GetGuardianSet(context.Background(), 1)
		}()
		go func() {
			defer wg.Done()
			defer func() { recover() }()
			gs.GetCurrentGuardianSet()
		}()
		wg.Wait()
	}
	// the periodic refresh goroutine (real ticker, 1 ms) against the simulated governance contract while lookups of
	// not yet stored indices append from other goroutines
	for round := 0; round < 20; round++ {
		c := newFakeChain(5)
		gsC := make(chan *common.GuardianSet, 4096)
		gs := guardiansets.NewGuardianSets([]*common.GuardianSet{mkSet(0), mkSet(1)}, c.srv.URL, zap.NewNop(), time.Millisecond, ethcommon.Address{1}, gsC)
		ctx, cancel := context.WithCancel(context.Background())
		gs.UpdateGuardianSet(ctx)
		ticks := func() int {
			c.mu.Lock()
			defer c.mu.Unlock()
			n := 0
			for _, k := range c.calls {
				if k == "current" {
					n++
				}
			}
			return n
		}
		for _, idx := range []int{2, 3, 4, 5} {
			// an append by a lookup, then the next refresh round (seen as its request at the simulated chain): the
			// refresh goroutine's accesses come right after the append's
			gs.GetGuardianSet(context.Background(), idx)
			gs.GetCurrentGuardianSet()
			for t0 := ticks(); ticks() < t0+2; {
				time.Sleep(200 * time.Microsecond)
			}
		}
		cancel()
		if os.Getenv("VERIF_VERBOSE") != "" {
			c.mu.Lock()
			fmt.Fprintf(os.Stderr, "race pass round %d: chain calls %d\n", round, len(c.calls))
			c.mu.Unlock()
		}
		c.srv.Close()
	}
	// the refresh goroutine against an endpoint that is down (every tick ends at the failed request, so the goroutine
	// never reaches the lock on its own) while another goroutine appends. This goroutine waits for ticks through an
	// atomic load only: it publishes nothing between its append and the next tick, so the two are unordered unless
	// both go through the lock.
	for round := 0; round < 30; round++ {
		var reqs int64
		srv := httptest.NewServer(http.HandlerFunc(func(w http.ResponseWriter, rq *http.Request) {
			atomic.AddInt64(&reqs, 1)
			w.WriteHeader(http.StatusServiceUnavailable)
		}))
		gsC := make(chan *common.GuardianSet, 64)
		gs := guardiansets.NewGuardianSets([]*common.GuardianSet{mkSet(0), mkSet(1)}, srv.URL, zap.NewNop(), time.Millisecond, ethcommon.Address{1}, gsC)
		ctx, cancel := context.WithCancel(context.Background())
		gs.UpdateGuardianSet(ctx)
		waitFor := func(n int64) {
			for atomic.LoadInt64(&reqs) < n {
				runtime.Gosched()
			}
		}
		waitFor(1)
		for i := 2; i <= 4; i++ {
			gs.VerifAppend([]*common.GuardianSet{mkSet(i)})
			waitFor(atomic.LoadInt64(&reqs) + 2)
		}
		cancel()
		srv.Close()
	}
	os.Exit(0)
}
