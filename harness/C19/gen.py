# Overlay generator for C19: gst_data.go is replaced by a copy with a scheduling point before every
# statement and the sync import pointing at the scheduler's shim (tools/yieldgen). Regenerated from
# the working tree on every run.
import os, subprocess

def generate(ctx):
    src = os.path.join(ctx["repo"], "explorer-backend/guardiansets/gst_data.go")
    if not os.path.exists(src):
        ctx["broken"]("gst_data.go missing")
    out = os.path.join(ctx["scratch"], "gst_data_yield.go")
    env = dict(os.environ, GOFLAGS="", GOPROXY="off", GOTOOLCHAIN="local", GO111MODULE="off")
    tool = os.path.join(ctx["scratch"], "yieldgen")
    p = subprocess.run(["go", "build", "-o", tool, os.path.join(ctx["root"], "tools/yieldgen/main.go")],
                       env=env, stdout=subprocess.PIPE, stderr=subprocess.STDOUT, text=True)
    if p.returncode != 0:
        print(p.stdout)
        ctx["broken"]("yieldgen does not build")
    p = subprocess.run([tool, src, out, ctx["modpath"] + "/verifh/vsched", ctx["modpath"] + "/verifh/vsync", "returns"],
                       env=env, stdout=subprocess.PIPE, stderr=subprocess.STDOUT, text=True)
    if p.returncode != 0:
        print(p.stdout)
        ctx["broken"]("yield instrumentation of gst_data.go failed")
    ctx["repl"][src] = out
