package main

// Slow path of GetGuardianSet: an index the explorer does not store yet is fetched from the governance
// contract (eth_call over JSON-RPC), appended and looked up again. The chain is simulated by an in-process
// JSON-RPC server that owns every answer: it can suspend the answer to one getGuardianSet(i) call while
// another lookup or the periodic updater runs to completion, and - like the real contract, whose
// guardianSets mapping returns a zero struct - it answers a non-existent index with an EMPTY key list.
// Orders are forced by rendezvous on channels (request arrived / answer released); nothing is timed.

import (
	"context"
	"encoding/hex"
	"encoding/json"
	"fmt"
	"io"
	"net/http"
	"net/http/httptest"
	"strings"
	"sync"
	"time"

	"github.com/alephium/wormhole-fork/explorer-backend/guardiansets"
	"github.com/alephium/wormhole-fork/explorer-backend/verifh/ev"
	"github.com/alephium/wormhole-fork/explorer-backend/verifh/keys"
	"github.com/alephium/wormhole-fork/node/pkg/common"
	ethabi "github.com/alephium/wormhole-fork/node/pkg/ethereum/abi"
	gethabi "github.com/ethereum/go-ethereum/accounts/abi"
	ethcommon "github.com/ethereum/go-ethereum/common"
	"go.uber.org/zap"
)

type fakeChain struct {
	mu      sync.Mutex
	current uint32 // highest existing guardian set index on chain
	parsed  gethabi.ABI
	holdIdx int           // suspend the next getGuardianSet(holdIdx) call (-1: none)
	arrived chan struct{} // closed when the suspended request is inside the server
	release chan struct{}
	calls   []string
	srv     *httptest.Server
}

func newFakeChain(current uint32) *fakeChain {
	p, err := gethabi.JSON(strings.NewReader(ethabi.AbiABI))
	if err != nil {
		ev.Broken("contract ABI: %v", err)
	}
	c := &fakeChain{current: current, parsed: p, holdIdx: -1}
	c.srv = httptest.NewServer(http.HandlerFunc(c.serve))
	return c
}

func (c *fakeChain) hold(idx int) {
	c.mu.Lock()
	c.holdIdx, c.arrived, c.release = idx, make(chan struct{}), make(chan struct{})
	c.mu.Unlock()
}

func (c *fakeChain) serve(w http.ResponseWriter, rq *http.Request) {
	body, _ := io.ReadAll(rq.Body)
	var req struct {
		ID     json.RawMessage   `json:"id"`
		Method string            `json:"method"`
		Params []json.RawMessage `json:"params"`
	}
	if err := json.Unmarshal(body, &req); err != nil {
		http.Error(w, "bad request", 400)
		return
	}
	reply := func(result interface{}) {
		out, _ := json.Marshal(map[string]interface{}{"jsonrpc": "2.0", "id": req.ID, "result": result})
		w.Header().Set("Content-Type", "application/json")
		w.Write(out)
	}
	switch req.Method {
	case "eth_chainId":
		reply("0x1")
	case "eth_getCode":
		reply("0x6001")
	case "eth_call":
		var arg struct{ Data, Input string }
		json.Unmarshal(req.Params[0], &arg)
		d := arg.Data
		if d == "" {
			d = arg.Input
		}
		data, _ := hex.DecodeString(strings.TrimPrefix(d, "0x"))
		if len(data) < 4 {
			reply("0x")
			return
		}
		get, cur := c.parsed.Methods["getGuardianSet"], c.parsed.Methods["getCurrentGuardianSetIndex"]
		switch string(data[:4]) {
		case string(cur.ID):
			c.mu.Lock()
			v := c.current
			c.calls = append(c.calls, "current")
			c.mu.Unlock()
			out, _ := cur.Outputs.Pack(v)
			reply("0x" + hex.EncodeToString(out))
		case string(get.ID):
			idx := int(data[len(data)-4])<<24 | int(data[len(data)-3])<<16 | int(data[len(data)-2])<<8 | int(data[len(data)-1])
			c.mu.Lock()
			c.calls = append(c.calls, fmt.Sprintf("get(%d)", idx))
			var rel chan struct{}
			if c.holdIdx == idx {
				c.holdIdx = -1
				close(c.arrived)
				rel = c.release
			}
			exists := uint32(idx) <= c.current
			c.mu.Unlock()
			if rel != nil {
				<-rel
			}
			gsv := ethabi.StructsGuardianSet{Keys: []ethcommon.Address{}}
			if exists {
				gsv.Keys = chainSet(idx).Keys
			}
			out, err := get.Outputs.Pack(gsv)
			if err != nil {
				ev.Broken("pack: %v", err)
			}
			reply("0x" + hex.EncodeToString(out))
		default:
			reply("0x")
		}
	default:
		reply(nil)
	}
}

// chainSet: what the chain holds for index i. Sets 4 and 5 are LARGER than the 19 guardians other chains allow
// (the EVM contract has no such limit): 20 and 25 keys.
func chainSet(i int) *common.GuardianSet {
	switch i {
	case 4:
		return &common.GuardianSet{Index: 4, Keys: keys.Addrs(keys.Range(400, 420)...)}
	case 5:
		return &common.GuardianSet{Index: 5, Keys: keys.Addrs(keys.Range(500, 525)...)}
	}
	return mkSet(i)
}

type spRes struct {
	set *common.GuardianSet
	err error
}

func sameKeys(a, b []ethcommon.Address) bool {
	if len(a) != len(b) {
		return false
	}
	for i := range a {
		if a[i] != b[i] {
			return false
		}
	}
	return true
}

// slowPath runs every scenario; returns the number of scenarios.
func slowPath() int {
	n := 0
	type second struct {
		kind string // "lookup" | "tick"
		idx  int
	}
	judge := func(name string, chainCur int, asked int, res spRes, rec interface{}) {
		switch {
		case asked <= chainCur && res.err != nil:
			r.Violation("slow path: lookup of an index that exists on chain fails", fmt.Sprintf("%s: asked %d: %v", name, asked, res.err), rec)
		case asked <= chainCur && int(res.set.Index) != asked:
			r.Violation("slow path: a lookup that fetched sets from the chain while another append ran returned a set with another index", fmt.Sprintf("%s: asked %d got index %d", name, asked, res.set.Index), rec)
		case asked <= chainCur && !sameKeys(res.set.Keys, chainSet(asked).Keys):
			r.Violation("slow path: the set returned for index i does not have the keys of the chain's set i", fmt.Sprintf("%s: asked %d got %d keys, the chain's set has %d", name, asked, len(res.set.Keys), len(chainSet(asked).Keys)), rec)
		case asked > chainCur && res.err == nil:
			r.Violation("slow path: lookup of an index that does not exist on chain returns a set", fmt.Sprintf("%s: asked %d (chain has 0..%d): got a set with index %d and %d keys", name, asked, chainCur, res.set.Index, len(res.set.Keys)), rec)
		}
	}
	listOK := func(name string, gs *guardiansets.GuardianSets, chainCur int, rec interface{}) {
		lst, ci := gs.VerifList(), gs.VerifCurrentIndex()
		ok := ci == len(lst)-1 && ci <= chainCur
		for i, ix := range lst {
			ok = ok && int(ix) == i
		}
		if !ok {
			r.Violation("slow path: the stored guardian-set list no longer maps index i to the chain's set i", fmt.Sprintf("%s: stored indices %v, current %d, chain has 0..%d", name, lst, ci, chainCur), rec)
		}
	}
	const chainCur = 5
	// (1) two lookups / lookup + updater overlapping inside the chain query
	for a := 2; a <= 4; a++ {
		for h := 2; h <= a; h++ {
			for _, sec := range []second{{"lookup", 2}, {"lookup", 3}, {"lookup", 4}, {"lookup", 5}, {"tick", 0}} {
				n++
				name := fmt.Sprintf("GetGuardianSet(%d) suspended in getGuardianSet(%d) while %s(%d) completes", a, h, sec.kind, sec.idx)
				rec := map[string]interface{}{"scenario": name, "stored_at_start": "sets 0..1", "chain": "sets 0..5"}
				c := newFakeChain(chainCur)
				gsC := make(chan *common.GuardianSet, 1024)
				gs := guardiansets.NewGuardianSets([]*common.GuardianSet{mkSet(0), mkSet(1)}, c.srv.URL, zap.NewNop(), time.Hour, ethcommon.Address{1}, gsC)
				c.hold(h)
				done := make(chan spRes, 1)
				go func() {
					s, err := gs.GetGuardianSet(context.Background(), a)
					done <- spRes{s, err}
				}()
				<-c.arrived
				var res2 spRes
				if sec.kind == "lookup" {
					res2.set, res2.err = gs.GetGuardianSet(context.Background(), sec.idx)
					judge(name+" [second lookup]", chainCur, sec.idx, res2, rec)
				} else {
					sets, err := guardiansets.GetGuardianSetsFromChain(context.Background(), c.srv.URL, ethcommon.Address{1}, uint32(gs.VerifCurrentIndex()+1))
					if err != nil {
						r.Violation("slow path: the periodic chain query fails", err.Error(), rec)
					} else {
						gs.VerifAppend(sets)
					}
				}
				close(c.release)
				res1 := <-done
				judge(name+" [suspended lookup]", chainCur, a, res1, rec)
				listOK(name, gs, chainCur, rec)
				// afterwards every existing index is still served correctly
				for i := 0; i <= chainCur; i++ {
					s, err := gs.GetGuardianSet(context.Background(), i)
					judge(name+" [afterwards]", chainCur, i, spRes{s, err}, rec)
				}
				c.srv.Close()
			}
		}
	}
	// (2) an index that does not exist on chain (a gossiped VAA may name any index), then the chain grows
	for _, bogus := range []int{3, 4, 9} {
		n++
		name := fmt.Sprintf("lookup of non-existent index %d, then the chain appends set 3", bogus)
		rec := map[string]interface{}{"scenario": name, "stored_at_start": "sets 0..1", "chain": "sets 0..2, later 0..3"}
		c := newFakeChain(2)
		gsC := make(chan *common.GuardianSet, 1024)
		gs := guardiansets.NewGuardianSets([]*common.GuardianSet{mkSet(0), mkSet(1)}, c.srv.URL, zap.NewNop(), time.Hour, ethcommon.Address{1}, gsC)
		s, err := gs.GetGuardianSet(context.Background(), bogus)
		judge(name, 2, bogus, spRes{s, err}, rec)
		listOK(name, gs, 2, rec)
		c.mu.Lock()
		c.current = 3
		c.mu.Unlock()
		for i := 0; i <= 3; i++ {
			s, err := gs.GetGuardianSet(context.Background(), i)
			judge(name+" [after the chain grew]", 3, i, spRes{s, err}, rec)
		}
		listOK(name+" [after the chain grew]", gs, 3, rec)
		c.srv.Close()
	}
	return n
}
