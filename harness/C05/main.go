// C05: VAA wire encoding round-trips exactly and the decoder is total.
// Exhaustive enumeration of (a) a boundary product of VAA values and (b) every structured edit of
// ~30 valid encodings plus every byte string of length 0..2, against the real vaa.Unmarshal/Marshal.
package main

import (
	"bytes"
	"encoding/binary"
	"encoding/hex"
	"fmt"
	"os"
	"path/filepath"
	"runtime"
	"strings"
	"sync/atomic"
	"time"

	"github.com/alephium/wormhole-fork/node/pkg/vaa"
	"github.com/alephium/wormhole-fork/node/verifh/cm"
	"github.com/alephium/wormhole-fork/node/verifh/ev"
	"github.com/alephium/wormhole-fork/node/verifh/vaacoop"
	"github.com/alephium/wormhole-fork/node/verifh/vaahist"
	"github.com/alephium/wormhole-fork/node/verifh/mc"
)

var r *ev.Run

func mkPayload(n int, seed byte) []byte {
	p := make([]byte, n)
	for i := range p {
		p[i] = byte(i*7) + seed
	}
	return p
}

func mkSigs(n int, pattern int) []*vaa.Signature {
	var s []*vaa.Signature
	for i := 0; i < n; i++ {
		sig := &vaa.Signature{}
		switch pattern {
		case 0:
			sig.Index = uint8(i)
		case 1:
			sig.Index = uint8(255 - i) // descending, includes 255
		case 2:
			sig.Index = 255
		}
		for j := range sig.Signature {
			sig.Signature[j] = byte(i + j + pattern)
		}
		s = append(s, sig)
	}
	return s
}

type valueCase struct {
	Version   uint8
	GSI       uint32
	NSigs     int
	SigPat    int
	TS        int64
	Nonce     uint32
	Seq       uint64
	CL        uint8
	EC, TC    uint16
	Addr      int
	PayloadLn int
}

func (c valueCase) build() *vaa.VAA {
	v := &vaa.VAA{Version: c.Version, GuardianSetIndex: c.GSI, Signatures: mkSigs(c.NSigs, c.SigPat),
		Timestamp: time.Unix(c.TS, 0), Nonce: c.Nonce, Sequence: c.Seq, ConsistencyLevel: c.CL,
		EmitterChain: vaa.ChainID(c.EC), TargetChain: vaa.ChainID(c.TC), Payload: mkPayload(c.PayloadLn, byte(c.Addr))}
	switch c.Addr {
	case 1:
		for i := range v.EmitterAddress {
			v.EmitterAddress[i] = 0xff
		}
	case 2:
		v.EmitterAddress[31] = 4
	case 3:
		v.EmitterAddress[0] = 0x80
	}
	return v
}

// equalVAA compares all wire-visible fields; returns the first differing field name.
func equalVAA(a, b *vaa.VAA) string {
	switch {
	case a.Version != b.Version:
		return "version"
	case a.GuardianSetIndex != b.GuardianSetIndex:
		return "guardian_set_index"
	case len(a.Signatures) != len(b.Signatures):
		return "signature_count"
	case a.Timestamp.Unix() != b.Timestamp.Unix() || b.Timestamp.Nanosecond() != a.Timestamp.Nanosecond():
		return "timestamp"
	case a.Nonce != b.Nonce:
		return "nonce"
	case a.Sequence != b.Sequence:
		return "sequence"
	case a.ConsistencyLevel != b.ConsistencyLevel:
		return "consistency_level"
	case a.EmitterChain != b.EmitterChain:
		return "emitter_chain"
	case a.TargetChain != b.TargetChain:
		return "target_chain"
	case a.EmitterAddress != b.EmitterAddress:
		return "emitter_address"
	case !bytes.Equal(a.Payload, b.Payload):
		return "payload"
	}
	for i := range a.Signatures {
		if a.Signatures[i] == nil || b.Signatures[i] == nil || *a.Signatures[i] != *b.Signatures[i] {
			return "signature"
		}
	}
	return ""
}

func lenClass(n int) string {
	switch {
	case n <= 1000:
		return "le1000"
	default:
		return "gt1000"
	}
}

var evals, nontriv int64

func checkValue(c valueCase) {
	atomic.AddInt64(&evals, 1)
	defer func() {
		if p := recover(); p != nil {
			r.Violation("value: panic", fmt.Sprint(p), c)
		}
	}()
	v := c.build()
	b, err := v.Marshal()
	if err != nil {
		r.Violation("value: marshal error", err.Error(), c)
		return
	}
	t0 := time.Now()
	w, err := vaa.Unmarshal(b)
	if time.Since(t0) > 5*time.Second {
		r.Violation("value: decode took > 5 s", "", c)
	}
	if err != nil {
		r.Violation("value: decoder rejects the encoding of a representable VAA (payload "+lenClass(c.PayloadLn)+")", err.Error(), c)
		return
	}
	if f := equalVAA(v, w); f != "" {
		r.Violation("value: round-trip changes "+f+" (payload "+lenClass(c.PayloadLn)+")", fmt.Sprintf("payload len in=%d out=%d", len(v.Payload), len(w.Payload)), c)
		return
	}
	if v.SigningMsg() != w.SigningMsg() {
		r.Violation("value: digest changes across round-trip", "", c)
	}
}

// checkBytes: totality + canonical re-encoding for an arbitrary byte string.
func checkBytes(kind string, in []byte) {
	// exact-capacity copy: a decoder that slices past len(input) panics instead of silently
	// reading spare capacity, so over-reads are observable
	b := make([]byte, len(in))
	copy(b, in)
	atomic.AddInt64(&evals, 1)
	defer func() {
		if p := recover(); p != nil {
			r.Violation("bytes: panic ("+kind+")", fmt.Sprint(p), map[string]string{"kind": kind, "hex": hex.EncodeToString(b)})
		}
	}()
	v, err := vaa.Unmarshal(b)
	if err != nil {
		if v != nil {
			r.Violation("bytes: error with a partially filled VAA ("+kind+")", err.Error(), map[string]string{"kind": kind, "hex": hex.EncodeToString(b)})
		}
		return
	}
	if v == nil {
		r.Violation("bytes: nil VAA without error ("+kind+")", "", map[string]string{"kind": kind, "hex": hex.EncodeToString(b)})
		return
	}
	if len(v.Payload) == 0 {
		// the representable range is "a VAA with a non-empty payload": a string that ends right after the
		// consistency level is the encoding of none of them, i.e. one of the "other" byte strings
		r.Violation("bytes: the decoder accepted an input without payload bytes (the encoding of no VAA in the stated range)", fmt.Sprintf("%d bytes, %d signatures (%s)", len(b), len(v.Signatures), kind), map[string]interface{}{"kind": kind, "len": len(b), "hex": hex.EncodeToString(b)})
		return
	}
	out, err := v.Marshal()
	if err != nil || !bytes.Equal(out, b) {
		hx := hex.EncodeToString(b)
		if len(hx) > 400 {
			hx = hx[:400] + "..."
		}
		r.Violation(fmt.Sprintf("bytes: accepted input does not re-encode to itself (%s, input %s)", kind, lenClass(len(b)-57-66*len(v.Signatures))),
			fmt.Sprintf("in=%d bytes out=%d bytes", len(b), len(out)), map[string]interface{}{"kind": kind, "len": len(b), "hex_prefix": hx})
	}
}

// ownEncode: the wire layout written from the property statement (independent of vaa.Marshal).
func ownEncode(v *vaa.VAA) []byte {
	b := []byte{v.Version, byte(v.GuardianSetIndex >> 24), byte(v.GuardianSetIndex >> 16), byte(v.GuardianSetIndex >> 8), byte(v.GuardianSetIndex), byte(len(v.Signatures))}
	for _, s := range v.Signatures {
		b = append(b, s.Index)
		b = append(b, s.Signature[:]...)
	}
	var f [53]byte
	binary.BigEndian.PutUint32(f[0:], uint32(v.Timestamp.Unix()))
	binary.BigEndian.PutUint32(f[4:], v.Nonce)
	binary.BigEndian.PutUint16(f[8:], uint16(v.EmitterChain))
	binary.BigEndian.PutUint16(f[10:], uint16(v.TargetChain))
	copy(f[12:44], v.EmitterAddress[:])
	binary.BigEndian.PutUint64(f[44:], v.Sequence)
	f[52] = v.ConsistencyLevel
	return append(append(b, f[:]...), v.Payload...)
}

// inFlight: several VAAs are encoded and decoded one after the other and every result is RETAINED; after
// each further operation every retained encoding must still be the encoding of its VAA and every retained
// decoded VAA must still equal its source (encodings and decodings are values, not views of shared memory).
// All ordered sequences of length 2..3 over a size alphabet; single goroutine pinned to one P so that any
// per-P cache in the code under test is hit deterministically.
func inFlight() {
	runtime.LockOSThread()
	defer runtime.UnlockOSThread()
	type shape struct{ ns, pl int }
	shapes := []shape{{0, 1}, {1, 57}, {13, 1000}, {13, 3300}, {13, 6000}, {19, 9000}, {2, 70000}}
	if r.Thorough() {
		shapes = append(shapes, shape{1, 200}, shape{255, 2000}, shape{0, 4000}, shape{3, 1 << 20})
	}
	mk := func(si int, salt int) *vaa.VAA {
		c := valueCase{Version: 1, GSI: uint32(salt), NSigs: shapes[si].ns, SigPat: 0, TS: 1700000000 + int64(salt), Nonce: uint32(si), Seq: uint64(100*salt + si), CL: 1, EC: 2, TC: 255, Addr: salt % 4, PayloadLn: shapes[si].pl}
		return c.build()
	}
	type held struct {
		src *vaa.VAA
		enc []byte
		own []byte
		dec *vaa.VAA
	}
	n := 0
	var seq func(prefix []int, maxLen int)
	runSeq := func(order []int) {
		n++
		atomic.AddInt64(&evals, 1)
		var hs []*held
		checkAll := func(stage string) {
			for hi, h := range hs {
				if !bytes.Equal(h.enc, h.own) {
					r.Violation("in-flight: a retained encoding changed after a later encode/decode", fmt.Sprintf("order %v: encoding #%d (%d bytes) differs from the layout of its VAA after %s", order, hi, len(h.enc), stage), map[string]interface{}{"order": order, "shapes": shapes})
					return
				}
				if h.dec != nil {
					if f := equalVAA(h.src, h.dec); f != "" {
						r.Violation("in-flight: a retained decoded VAA changed after a later encode/decode", fmt.Sprintf("order %v: decoded #%d field %s after %s", order, hi, f, stage), map[string]interface{}{"order": order, "shapes": shapes})
						return
					}
				}
			}
		}
		for k, si := range order {
			v := mk(si, k+1)
			b, err := v.Marshal()
			if err != nil {
				return
			}
			h := &held{src: v, enc: b, own: ownEncode(v)}
			hs = append(hs, h)
			checkAll(fmt.Sprintf("encode #%d", k))
			// decode from an exact-capacity private copy so that only the code under test can alias
			d, err := vaa.Unmarshal(append(make([]byte, 0, len(h.own)), h.own...))
			if err == nil {
				h.dec = d
			}
			checkAll(fmt.Sprintf("decode #%d", k))
		}
	}
	seq = func(prefix []int, maxLen int) {
		if len(prefix) >= 2 {
			runSeq(prefix)
		}
		if len(prefix) == maxLen {
			return
		}
		for i := range shapes {
			seq(append(append([]int{}, prefix...), i), maxLen)
		}
	}
	seq(nil, 3)
	r.Set("in_flight_sequences", n)
	nontriv += int64(n)
}

func main() {
	r = ev.Start("C05", "exploration")
	_ = os.Args

	// ---- (a) value space: boundary product
	versions := []uint8{1}
	gsis := []uint32{0, 1, 1<<32 - 1}
	nsigs := []int{0, 1, 2, 13, 19, 254, 255}
	sigpat := []int{0, 1, 2}
	tss := []int64{0, 1, 1<<31 - 1, 1 << 31, 1<<32 - 1}
	nonces := []uint32{0, 1<<32 - 1}
	seqs := []uint64{0, 1, 1<<63 - 1, 1<<64 - 1}
	cls := []uint8{0, 1, 255}
	chains := []uint16{0, 2, 255, 65535}
	addrs := []int{0, 1, 2, 3}
	plens := []int{1, 2, 57, 58, 999, 1000, 1001, 1002, 2000, 65535, 65536}
	if r.Thorough() {
		plens = append(plens, 1<<20)
		nsigs = append(nsigs, 3, 127, 128)
	}
	// all pairs of non-default fields: enumerate full product over (nsigs,sigpat,plens) x pairs of the rest
	type dim struct {
		n   int
		set func(c *valueCase, i int)
	}
	dims := []dim{
		{len(gsis), func(c *valueCase, i int) { c.GSI = gsis[i] }},
		{len(tss), func(c *valueCase, i int) { c.TS = tss[i] }},
		{len(nonces), func(c *valueCase, i int) { c.Nonce = nonces[i] }},
		{len(seqs), func(c *valueCase, i int) { c.Seq = seqs[i] }},
		{len(cls), func(c *valueCase, i int) { c.CL = cls[i] }},
		{len(chains), func(c *valueCase, i int) { c.EC = chains[i] }},
		{len(chains), func(c *valueCase, i int) { c.TC = chains[i] }},
		{len(addrs), func(c *valueCase, i int) { c.Addr = i }},
	}
	var cases []valueCase
	seen := map[valueCase]bool{}
	add := func(c valueCase) {
		if !seen[c] {
			seen[c] = true
			cases = append(cases, c)
		}
	}
	for _, ns := range nsigs {
		for _, sp := range sigpat {
			if ns == 0 && sp > 0 {
				continue
			}
			for _, pl := range plens {
				base := valueCase{Version: versions[0], NSigs: ns, SigPat: sp, PayloadLn: pl}
				if pl > 2000 && ns > 2 && ns != 255 {
					continue // large payloads only with the boundary signature counts
				}
				for a := 0; a < len(dims); a++ {
					for b := a; b < len(dims); b++ {
						for i := 0; i < dims[a].n; i++ {
							for j := 0; j < dims[b].n; j++ {
								c := base
								dims[a].set(&c, i)
								dims[b].set(&c, j)
								add(c)
							}
						}
					}
				}
			}
		}
	}
	mc.ParallelFor(len(cases), func(i int) { checkValue(cases[i]) })
	for _, c := range cases[:3] {
		r.Sample(map[string]interface{}{"kind": "value", "case": c})
	}
	r.Set("value_cases", len(cases))
	nontriv += int64(len(cases))

	// ---- (a') several VAAs in flight
	inFlight()

	// ---- (a'') concurrent callers under every schedule with <= 2 (thorough 3) preemptions
	nontriv += int64(vaacoop.Explore(r, r.Pick(2, 3), r.Thorough()))
	// operation histories on one VAA object: the encoding is a function of the current field values alone
	nontriv += int64(vaahist.Explore(r, "C05", r.Pick(4, 5)))

	// ---- (a''') the contract-side decoders of the same encoding (layout tables extracted at check time): where the
	// body starts for a VAA with n signatures must be where the Go encoder puts it, for every n - in particular
	// for more signatures than a quorum (the contract test suites only ever submit exactly a quorum)
	for _, src := range []string{"ethereum/contracts/Messages.sol", "alephium/contracts/governance.ral"} {
		var L *cm.VMLayout
		var err error
		if strings.HasSuffix(src, ".sol") {
			L, err = cm.ExtractSolidityParseVM(filepath.Join(r.Repo, src))
		} else {
			L, err = cm.ExtractRalphParseVAA(filepath.Join(r.Repo, src))
		}
		if err != nil {
			ev.Broken("%s: %v", src, err)
		}
		if L.BodyStartVar != L.SigCountVar {
			r.Violation("counterpart decoder: "+filepath.Base(src)+" locates the body with another quantity than the number of signatures the encoding carries", fmt.Sprintf("body start = %d + %s * %d; signature count is read into %s", L.BodyStartC, L.BodyStartVar, L.BodyStartPer, L.SigCountVar), L)
		}
		for _, ns := range []int{0, 1, 2, 3, 4, 13, 14, 19, 255} {
			c := valueCase{Version: 1, NSigs: ns, PayloadLn: 7}
			b, _ := c.build().Marshal()
			goStart := len(b) - 53 - 7
			if L.BodyStartC+L.BodyStartPer*ns != goStart {
				r.Violation("counterpart decoder: "+filepath.Base(src)+" expects the body at another offset than the Go encoder writes it", fmt.Sprintf("%d signatures: contract %d, encoder %d", ns, L.BodyStartC+L.BodyStartPer*ns, goStart), L)
			}
		}
		nontriv += 9
	}

	// ---- (b) byte space
	// every byte string of length 0..2
	n := 0
	checkBytes("len0", []byte{})
	for a := 0; a < 256; a++ {
		checkBytes("len1", []byte{byte(a)})
		for b := 0; b < 256; b++ {
			checkBytes("len2", []byte{byte(a), byte(b)})
			n++
		}
	}
	nontriv += int64(n + 257)
	// structured edits of valid encodings
	var bases [][]byte
	for _, ns := range []int{0, 1, 2, 19} {
		for _, pl := range []int{1, 2, 57, 100, 999, 1000, 1001} {
			c := valueCase{Version: 1, GSI: 3, NSigs: ns, SigPat: 0, TS: 1700000000, Nonce: 7, Seq: 9, CL: 15, EC: 2, TC: 255, Addr: 2, PayloadLn: pl}
			if ns == 19 && pl > 100 && !r.Thorough() {
				continue
			}
			b, _ := c.build().Marshal()
			bases = append(bases, b)
		}
	}
	r.Set("byte_bases", len(bases))
	type job struct {
		kind string
		b    []byte
	}
	var distinctEdits int64
	mc.ParallelFor(len(bases), func(bi int) {
		base := bases[bi]
		local := map[string]struct{}{}
		try := func(kind string, b []byte) {
			k := string(b)
			if _, ok := local[k]; ok {
				return
			}
			local[k] = struct{}{}
			checkBytes(kind, b)
		}
		for i := 0; i <= len(base); i++ {
			try("prefix", append([]byte{}, base[:i]...))
		}
		for i := 0; i < len(base); i++ {
			for _, nb := range []byte{0x00, 0x01, 0x7f, 0x80, 0xff, base[i] ^ 1, base[i] ^ 0x80} {
				m := append([]byte{}, base...)
				m[i] = nb
				try("substitute", m)
			}
			try("delete", append(append([]byte{}, base[:i]...), base[i+1:]...))
		}
		for i := 0; i <= len(base); i++ {
			for _, nb := range []byte{0x00, 0xff} {
				m := append(append(append([]byte{}, base[:i]...), nb), base[i:]...)
				try("insert", m)
			}
		}
		for c := 0; c < 256; c++ {
			m := append([]byte{}, base...)
			m[5] = byte(c)
			try("sigcount", m)
		}
		// suffix extension: accepted inputs with long tails must still re-encode exactly
		for _, extra := range []int{1, 943, 944, 1000, 5000} {
			m := append(append([]byte{}, base...), mkPayload(extra, 3)...)
			try("extend", m)
		}
		atomic.AddInt64(&distinctEdits, int64(len(local)))
	})
	nontriv += distinctEdits
	r.Sample(map[string]interface{}{"kind": "bytes/base", "hex": hex.EncodeToString(bases[0])})
	r.Set("byte_edits_distinct", int(distinctEdits))
	r.Set("evaluations", int(evals))
	r.Set("distinct_nontrivial", int(nontriv))
	r.Set("rule", "values: for each (signature count, index pattern, payload length) every pair of the 8 remaining fields ranges over its boundary alphabet, others default, deduplicated; in flight: every ordered sequence of 2..3 VAAs over the size alphabet is encoded and decoded with all results retained and re-compared against an independent encoder after every step; bytes: all strings of length 0..2, and for each valid base encoding every prefix, single-byte substitution (7 values), deletion, insertion (0x00,0xff), every signature-count byte, 5 tail extensions, deduplicated per base. Every distinct case counts as non-trivial (each hits a boundary value or a malformed shape).")
	r.Assume("timestamps are whole seconds in [0, 2^32): the wire field is 32 bits")
	r.Finish()
}
