// C01: only quorum-signed, verifiable VAAs are ever stored or broadcast.
// Explicit-state search over event histories of the real Processor handlers (local observations,
// loopbacks, gossiped observations of every validity class, inbound signed VAAs, guardian-set
// updates), one fresh real processor per explored history, state-key pruning; an independent
// verifier checks every broadcast and every store change in every reached state.
package main

import (
	"encoding/json"
	"fmt"
	"os"
	"runtime/pprof"
	"sort"
	"time"

	"github.com/alephium/wormhole-fork/node/pkg/vaa"
	"github.com/alephium/wormhole-fork/node/verifh/ev"
	"github.com/alephium/wormhole-fork/node/verifh/proch"
)

const outsider = 9999

type cfg struct {
	C        proch.Config
	NSets    int   // how many set updates the menu offers
	MsgIdx   []int // messages offered as local observations
	ObsKeys  []int // guardians that may gossip
	Depth    int
	InMsgs   []int
	InVars   []int
	MaxState int
	Prefix   []proch.Event
	AnySet   bool
}

func emitter() (a vaa.Address) { a[31] = 0x42; return }

func msgs() []proch.Msg {
	e := emitter()
	return []proch.Msg{
		{Seq: 5, Payload: []byte{1, 2, 3}, Emitter: e, Chain: 2, Target: 255, CL: 1, Nonce: 9},
		{Seq: 5, TSOff: 60, Payload: []byte{1, 2, 3}, Emitter: e, Chain: 2, Target: 255, CL: 1, Nonce: 9}, // same id, later timestamp: another digest
		{Seq: 6, Payload: []byte{7}, Emitter: e, Chain: 2, Target: 255, CL: 1},                              // never observed locally in C01
	}
}

func rng(a, b int) []int {
	var o []int
	for i := a; i < b; i++ {
		o = append(o, i)
	}
	return o
}

func configs(r *ev.Run) []cfg {
	var out []cfg
	depth := r.Pick(6, 8)
	for n := 1; n <= r.Pick(4, 6); n++ {
		for own := 0; own <= n; own++ {
			ownKey := own
			if own == n {
				ownKey = 500 // not a member of any set
			}
			sets := [][]int{rng(0, n), rng(1, n+1), rng(100, 100+n)}
			obs := append(rng(0, n+1), outsider)
			if r.Thorough() {
				obs = append(obs, 100)
			}
			d := depth
			if n >= 4 && !r.Thorough() {
				d = 5
			}
			if n >= 5 {
				d = 6
			}
			out = append(out, cfg{C: proch.Config{Name: fmt.Sprintf("n%d-own%d", n, own), Sets: sets, OwnKey: ownKey, Msgs: msgs()},
				NSets: nsetsFor(r, n), MsgIdx: []int{0, 1}, ObsKeys: obs, Depth: d, InMsgs: []int{0, 2}, InVars: rng(0, len(proch.InVariants)), MaxState: 400000})
		}
	}
	// rotations between sets of DIFFERENT sizes: the quorum that counts is that of the set the VAA names (the
	// one in force at the local observation), not of whatever set is current when the last signature arrives
	for _, p := range [][2]int{{4, 1}, {4, 2}, {2, 4}, {1, 3}, {3, 2}, {7, 4}, {4, 7}} {
		a, b := p[0], p[1]
		sets := [][]int{rng(0, a), rng(0, b), rng(100, 100+a)}
		obs := append(rng(0, 5), outsider)
		if a+b > 10 {
			obs = []int{1, 2, 3, 6, outsider}
		}
		out = append(out, cfg{C: proch.Config{Name: fmt.Sprintf("resize-%d-to-%d", a, b), Sets: sets, OwnKey: 0, Msgs: msgs()},
			NSets: 2, MsgIdx: []int{0}, ObsKeys: obs, Depth: 6, InMsgs: []int{0}, InVars: []int{0, 1}, MaxState: 400000})
	}
	// non-initial states that need wall-clock time to be reached: the message was observed, did not reach
	// quorum, and the cleanup service has marked it settled (30 s) / retried it (5 min) before the search starts
	for _, n := range []int{2, 3, 4} {
		for _, own := range []int{0, n - 1} {
			sets := [][]int{rng(0, n), rng(1, n+1), rng(100, 100+n)}
			for ti, ticks := range [][]proch.Event{{{Kind: "tick", DtSec: 31}}, {{Kind: "tick", DtSec: 31}, {Kind: "tick", DtSec: 330}, {Kind: "tick", DtSec: 30}},
				// the set rotates while the message is pending, THEN the cleanup service settles and retries it
				{{Kind: "set", Set: 1}, {Kind: "tick", DtSec: 31}, {Kind: "tick", DtSec: 330}},
				{{Kind: "tick", DtSec: 31}, {Kind: "set", Set: 1}, {Kind: "tick", DtSec: 330}, {Kind: "tick", DtSec: 30}}} {
				prefix := append([]proch.Event{{Kind: "set", Set: 0}, {Kind: "msg", M: 0}, {Kind: "lb", LB: 0}}, ticks...)
				out = append(out, cfg{C: proch.Config{Name: fmt.Sprintf("n%d-own%d-settled%d", n, own, ti), Sets: sets, OwnKey: own, Msgs: msgs()},
					NSets: 2, MsgIdx: []int{0}, ObsKeys: append(rng(0, n+1), outsider), Depth: r.Pick(5, 6), InMsgs: []int{0}, InVars: []int{0, 1}, MaxState: 400000, Prefix: prefix, AnySet: true})
			}
		}
	}
	// large sets: signer choice restricted to q+1 guardians at three placements, own key first/middle/last/absent
	sizes := []int{5, 7, 8, 10, 12, 13, 19}
	if r.Thorough() {
		sizes = rng(5, 20) // every size up to the documented maximum
	}
	for _, n := range sizes {
		q := proch.Quorum(n)
		for pi, start := range []int{0, (n - q - 1) / 2, n - q - 1} {
			for oi, ownKey := range []int{0, n / 2, n - 1, 500} {
				if !r.Thorough() && (pi+oi)%2 == 1 {
					continue
				}
				sets := [][]int{rng(0, n), rng(1, n+1)}
				obs := rng(start, start+q+1)
				// start from a non-initial state: the set is known and quorum-2 of the chosen signers have
				// already gossiped; the search then covers every order of the last three signers, the local
				// observation, its loopback, a set update and the inbound variants
				prefix := []proch.Event{{Kind: "set", Set: 0}}
				for _, g := range obs[:q-2] {
					if g != ownKey {
						prefix = append(prefix, proch.Event{Kind: "obs", G: g, D: 0})
					}
				}
				out = append(out, cfg{C: proch.Config{Name: fmt.Sprintf("n%d-signers%d-own%d", n, start, ownKey), Sets: sets, OwnKey: ownKey, Msgs: msgs()},
					NSets: 2, MsgIdx: []int{0}, ObsKeys: obs[q-2:], Depth: r.Pick(6, 7), InMsgs: []int{2}, InVars: []int{0, 1, 3, 4, 5, 6, 8}, MaxState: 400000, Prefix: prefix})
			}
		}
	}
	// heaviest first, so that the round-robin deal over shards is balanced
	w := func(c cfg) int { return len(c.ObsKeys) * len(c.ObsKeys) * c.Depth * (1 + len(c.C.Sets[0])/8) }
	sort.SliceStable(out, func(i, j int) bool { return w(out[i]) > w(out[j]) })
	return out
}

// nsetsFor: three guardian sets (a third update) for the smallest configurations also in the quick tier.
func nsetsFor(r *ev.Run, n int) int {
	if n <= 2 || r.Thorough() {
		return 3
	}
	return 2
}

func menu(c cfg) proch.Enabled {
	return func(n *proch.Node, m *proch.Model, hist []proch.Event) []proch.Event {
		var evs []proch.Event
		// guardian-set updates arrive from several chain watchers on one channel: any known set may be
		// delivered at any time, also an older one after a newer one
		for s := 0; s < c.NSets; s++ {
			if s != m.Cur && (s <= m.Cur+1 || c.AnySet) {
				evs = append(evs, proch.Event{Kind: "set", Set: s})
			}
		}
		if len(n.Pending) < 2 {
			for _, mi := range c.MsgIdx {
				evs = append(evs, proch.Event{Kind: "msg", M: mi})
			}
		}
		for i := range n.Pending {
			evs = append(evs, proch.Event{Kind: "lb", LB: i})
		}
		for _, g := range c.ObsKeys {
			for _, d := range c.MsgIdx {
				evs = append(evs, proch.Event{Kind: "obs", G: g, D: d})
			}
		}
		g0 := c.ObsKeys[0]
		evs = append(evs,
			proch.Event{Kind: "obs", G: g0, D: -1},
			proch.Event{Kind: "obs", G: g0, D: 0, ObsKind: 1},
			proch.Event{Kind: "obs", G: g0, D: 0, ObsKind: 2, Claim: c.ObsKeys[len(c.ObsKeys)/2]},
			proch.Event{Kind: "obs", G: outsider, D: 0, ObsKind: 2, Claim: g0},
			proch.Event{Kind: "obs", G: g0, D: 0, ObsKind: 3})
		// a valid signature in the 27/28 recovery-id encoding, by two different guardians
		recid := len(proch.ObsKinds) - 1
		evs = append(evs, proch.Event{Kind: "obs", G: g0, D: 0, ObsKind: recid})
		if len(c.ObsKeys) > 1 {
			evs = append(evs, proch.Event{Kind: "obs", G: c.ObsKeys[1], D: 0, ObsKind: recid})
		}
		for k, mi := range c.InMsgs {
			for _, v := range c.InVars {
				if k == 0 && len(c.InMsgs) > 1 && v != 0 && v != 1 && v != 6 {
					continue // the locally observable message: quorum, quorum-1, wrong-body only
				}
				for s := m.Cur - 1; s <= m.Cur+1 && s < len(c.C.Sets); s++ {
					if s >= 0 {
						evs = append(evs, proch.Event{Kind: "in", M: mi, InVar: v, InSet: s})
					}
				}
			}
		}
		return evs
	}
}

func main() {
	r := ev.Start("C01", "model_checking")
	if len(os.Args) > 2 && os.Args[1] == "--replay" {
		replay(r, os.Args[2])
		return
	}
	cfgs := configs(r)
	si, sn, worker := ev.Shard()
	if !worker {
		r.Set("configs", len(cfgs))
		r.Fork(0, []string{"GOMAXPROCS=2"}, nil)
		r.Set("rule", "state = canonical key of (aggregation entries with signer sets/flags/set indices, store content, pending loopbacks, reference-model state); one history kept per key; every transition checked by the independent verifier")
		r.Assume("handler invocations are atomic transitions (the Run loop is a single goroutine); guardian sets delivered in increasing index order")
		r.Assume("set sizes 1..4 (thorough 1..6) with every own-key position explored with all guardians free to gossip; sizes 7, 13, 19 with signer choice restricted to quorum+1 guardians at three placements")
		r.Finish()
		return
	}
	if pf := os.Getenv("VERIF_PROF"); pf != "" {
		f, _ := os.Create(pf)
		pprof.StartCPUProfile(f)
		defer pprof.StopCPUProfile()
	}
	w := proch.NewWorld()
	for i, c := range cfgs {
		if i%sn != si {
			continue
		}
		if only := os.Getenv("VERIF_ONLY"); only != "" && only != c.C.Name {
			continue
		}
		c := c
		t0 := time.Now()
		x := &proch.Explorer{R: r, W: w, C: &c.C, Oracles: map[string]bool{"C01": true}}
		if i == si {
			x.SelfTest([]proch.Event{{Kind: "set", Set: 0}, {Kind: "msg", M: 0}, {Kind: "lb", LB: 0}, {Kind: "obs", G: c.ObsKeys[0], D: 0}})
			r.Add("traces_validated_against_impl", 2)
		}
		x.BFSFrom(c.Prefix, c.Depth, menu(c), c.MaxState, nil)
		r.Add("states", x.States)
		r.Add("transitions", x.Transitions)
		r.Add("replays_on_fresh_processor", x.Builds)
		r.Add("publishes_checked", x.Publishes)
		r.Add("store_changes_checked", x.Stores)
		r.Add("traces_validated_against_impl", x.Builds)
		if os.Getenv("VERIF_VERBOSE") != "" {
			fmt.Fprintf(os.Stderr, "%s depth=%d states=%d transitions=%d builds=%d %.1fs\n", c.C.Name, c.Depth, x.States, x.Transitions, x.Builds, time.Since(t0).Seconds())
		}
		if i < 3 {
			r.Sample(map[string]interface{}{"config": c.C.Name, "states": x.States, "transitions": x.Transitions, "example_history": "Set(0) Msg(0) LB(0) Obs(g,d=0,valid)... up to depth " + fmt.Sprint(c.Depth)})
		}
	}
	pprof.StopCPUProfile()
	r.Finish()
}

func replay(r *ev.Run, path string) {
	b, err := os.ReadFile(path)
	if err != nil {
		ev.Broken("%v", err)
	}
	var art struct {
		Replay proch.Replay `json:"replay"`
	}
	if err := json.Unmarshal(b, &art); err != nil {
		ev.Broken("%v", err)
	}
	w := proch.NewWorld()
	x := &proch.Explorer{R: r, W: w, C: &art.Replay.Config, Oracles: map[string]bool{"C01": true}}
	x.Run(art.Replay.History).Close()
	r.Set("states", len(art.Replay.History))
	r.Set("transitions", len(art.Replay.History))
	r.Set("traces_validated_against_impl", 1)
	r.Sample(art.Replay.Pretty)
	fmt.Printf("replayed %v: %d violations\n", art.Replay.Pretty, r.Violations())
	if r.Violations() > 0 {
		os.Exit(1)
	}
	os.Exit(0)
}
