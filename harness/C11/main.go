// C11: Alephium event fields map faithfully to the attested message.
// Exhaustive boundary product of event field values and shapes (every pair of non-default fields)
// against the real ToWormholeMessage / toMessagePublication / parseAttestToken and the id/address/hex
// conversions; reference mapping written from the statement.
package main

import (
	"bytes"
	"encoding/binary"
	"encoding/hex"
	"fmt"
	"math/big"
	"regexp"
	"path/filepath"
	"os"
	"strings"
	"sync/atomic"

	sdk "github.com/alephium/go-sdk"
	"github.com/alephium/wormhole-fork/node/pkg/alephium"
	"github.com/alephium/wormhole-fork/node/pkg/common"
	"github.com/alephium/wormhole-fork/node/pkg/vaa"
	"github.com/alephium/wormhole-fork/node/verifh/alphh"
	"github.com/alephium/wormhole-fork/node/verifh/ev"
	"github.com/alephium/wormhole-fork/node/verifh/mc"
)

var r *ev.Run

// fieldSpec describes one field of an event as the node reports it.
type fieldSpec struct {
	Type  string `json:"type"`  // Val variant: U256, ByteVec, Bool, Address, I256, nil
	Value string `json:"value"` // textual value
}

func (f fieldSpec) val() sdk.Val {
	switch f.Type {
	case "U256":
		return sdk.Val{ValU256: &sdk.ValU256{Type: "U256", Value: f.Value}}
	case "U256-typed-I256": // variant pointer set but the type tag says otherwise
		return sdk.Val{ValU256: &sdk.ValU256{Type: "I256", Value: f.Value}}
	case "ByteVec":
		return sdk.Val{ValByteVec: &sdk.ValByteVec{Type: "ByteVec", Value: f.Value}}
	case "ByteVec-typed-U256":
		return sdk.Val{ValByteVec: &sdk.ValByteVec{Type: "U256", Value: f.Value}}
	case "Bool":
		return sdk.Val{ValBool: &sdk.ValBool{Type: "Bool", Value: true}}
	case "Address":
		return sdk.Val{ValAddress: &sdk.ValAddress{Type: "Address", Value: f.Value}}
	case "I256":
		return sdk.Val{ValI256: &sdk.ValI256{Type: "I256", Value: f.Value}}
	}
	return sdk.Val{}
}

var two = big.NewInt(2)

func pow2(n uint) *big.Int { return new(big.Int).Exp(two, big.NewInt(int64(n)), nil) }

func numAlphabet() []string {
	sub := func(a *big.Int, k int64) string { return new(big.Int).Sub(a, big.NewInt(k)).String() }
	add := func(a *big.Int, k int64) string { return new(big.Int).Add(a, big.NewInt(k)).String() }
	return []string{"0", "1", "254", "255", "256", "65534", "65535", "65536", pow2(32).String(), sub(pow2(64), 1), pow2(64).String(), add(pow2(64), 2),
		// where the decimal LENGTH and the machine word boundaries disagree: 2^31, 2^53, 2^63 (19 digits, above int64), 10^19-1 (19 digits), 10^19 (20 digits, below 2^64)
		sub(pow2(31), 1), pow2(31).String(), add(pow2(53), 1), sub(pow2(63), 1), pow2(63).String(), add(pow2(63), 1), "9876543210987654321", "9999999999999999999", "10000000000000000000", "99999999999999999999",
		pow2(80).String(), add(pow2(128), 255), sub(pow2(256), 1),
		"", "abc", "1e3", " 1", "1 ", "0x10", "0b101", "1_000", "12a", "010", "+7"}
}

// parseU256 is the reference reading of what a node can report for a U256: a plain decimal numeral.
// ok=false: not a numeral (must be rejected). judged=false: outside what a node reports (not judged).
func parseU256(s string) (v *big.Int, ok, judged bool) {
	if s == "" {
		return nil, false, true
	}
	if s[0] == '+' || s[0] == '-' {
		return nil, false, false // signed spellings are not produced by a node for U256: not judged
	}
	for _, c := range s {
		if c < '0' || c > '9' {
			return nil, false, true
		}
	}
	v, _ = new(big.Int).SetString(s, 10)
	return v, true, true
}

type evCase struct {
	Fields []fieldSpec `json:"fields"`
	TxId   string      `json:"tx_id"`
	TsMs   int64       `json:"block_timestamp_ms"`
}

const goodSender = "deae14cf3bcfaea1f8f7e905fd8b554833d1bccaa8a9a1dd01f29fea6c7bca07"

func defaults() []fieldSpec {
	return []fieldSpec{{"ByteVec", goodSender}, {"U256", "2"}, {"U256", "100"}, {"ByteVec", "12e551d9"}, {"ByteVec", "01ff"}, {"U256", "1"}}
}

var evals int64

func check(c evCase) {
	atomic.AddInt64(&evals, 1)
	vals := make([]sdk.Val, len(c.Fields))
	for i, f := range c.Fields {
		vals[i] = f.val()
	}
	var msg *alephium.WormholeMessage
	var err error
	func() {
		defer func() {
			if p := recover(); p != nil {
				r.Violation("ToWormholeMessage panics", fmt.Sprint(p), c)
				err = fmt.Errorf("panic")
			}
		}()
		msg, err = alephium.ToWormholeMessage(vals, c.TxId)
	}()
	// ---- reference
	fits, judged := true, true
	why := ""
	var want alephium.VerifMsgFields
	want.TxId = c.TxId
	if len(c.Fields) != 6 {
		fits, why = false, "field count"
	} else {
		bytesOf := func(f fieldSpec) ([]byte, bool) {
			if f.Type != "ByteVec" {
				return nil, false
			}
			b, e := hex.DecodeString(f.Value)
			return b, e == nil
		}
		numOf := func(f fieldSpec, max *big.Int, name string) uint64 {
			if f.Type != "U256" {
				fits, why = false, name+" is not a U256"
				return 0
			}
			v, ok, j := parseU256(f.Value)
			if !j {
				judged = false
				return 0
			}
			if !ok {
				fits, why = false, name+" is not a decimal numeral"
				return 0
			}
			if v.Cmp(max) > 0 {
				fits, why = false, name+" exceeds its range"
				return 0
			}
			return v.Uint64()
		}
		if b, ok := bytesOf(c.Fields[0]); !ok || len(b) != 32 {
			fits, why = false, "sender is not 32 bytes"
		} else {
			copy(want.SenderId[:], b)
		}
		want.TargetChainId = uint16(numOf(c.Fields[1], big.NewInt(65535), "target chain"))
		want.Sequence = numOf(c.Fields[2], new(big.Int).Sub(pow2(64), big.NewInt(1)), "sequence")
		if b, ok := bytesOf(c.Fields[3]); !ok || len(b) != 4 {
			fits, why = false, "nonce is not 4 bytes"
		} else {
			want.Nonce = binary.BigEndian.Uint32(b)
		}
		if b, ok := bytesOf(c.Fields[4]); !ok {
			fits, why = false, "payload is not hex"
		} else {
			want.Payload = b
		}
		want.ConsistencyLevel = uint8(numOf(c.Fields[5], big.NewInt(255), "consistency level"))
	}
	if !judged {
		r.Add("not_judged_signed_numerals", 1)
		return
	}
	if !fits {
		if err == nil {
			got := msg.VerifFields()
			r.Violation("event whose fields do not fit is accepted (wrapped or truncated) instead of rejected: "+why, fmt.Sprintf("decoded as target=%d seq=%d cl=%d nonce=%d", got.TargetChainId, got.Sequence, got.ConsistencyLevel, got.Nonce), c)
		}
		return
	}
	if err != nil {
		r.Violation("event whose fields fit the VAA format is rejected with: "+err.Error(), boundaryOf(c), c)
		return
	}
	got := msg.VerifFields()
	if got.TxId != want.TxId || got.SenderId != want.SenderId || got.TargetChainId != want.TargetChainId || got.Nonce != want.Nonce ||
		!bytes.Equal(got.Payload, want.Payload) || got.Sequence != want.Sequence || got.ConsistencyLevel != want.ConsistencyLevel {
		r.Violation("decoded message differs from the event's field values", fmt.Sprintf("got %+v want %+v", got, want), c)
		return
	}
	// message publication
	mp := msg.VerifToMessagePublication(&sdk.BlockHeaderEntry{Timestamp: c.TsMs})
	// decode ANOTHER event (and an attestation) while this message is still held: the held message and
	// its publication must not change (no shared scratch memory between conversions)
	other := defaults()
	other[4] = fieldSpec{"ByteVec", strings.Repeat("ee", len(want.Payload)+3)}
	other[3] = fieldSpec{"ByteVec", "aabbccdd"}
	ov := make([]sdk.Val, 6)
	for i, f := range other {
		ov[i] = f.val()
	}
	alephium.ToWormholeMessage(ov, "ff")
	alephium.VerifParseAttestToken(attestPayload([32]byte{1}, 255, 8, [32]byte{'X'}, [32]byte{'Y'}))
	if again := msg.VerifFields(); !bytes.Equal(again.Payload, want.Payload) || again.SenderId != want.SenderId || again.Nonce != want.Nonce {
		r.Violation("a decoded message changed after another event was decoded (conversions share memory)", fmt.Sprintf("payload now %x", again.Payload[:imin(len(again.Payload), 16)]), c)
	}
	wantTx := c.TxId
	okPub := mp.Timestamp.UnixMilli() == c.TsMs && mp.Timestamp.Nanosecond()%1_000_000 == 0 && mp.EmitterChain == vaa.ChainIDAlephium && uint16(mp.TargetChain) == want.TargetChainId &&
		mp.EmitterAddress == vaa.Address(want.SenderId) && mp.Nonce == want.Nonce && mp.Sequence == want.Sequence && mp.ConsistencyLevel == want.ConsistencyLevel && bytes.Equal(mp.Payload, want.Payload)
	if len(wantTx) == 64 {
		if b, e := hex.DecodeString(wantTx); e == nil && !bytes.Equal(mp.TxHash[:], b) {
			okPub = false
		}
	}
	if !okPub {
		r.Violation("message publication does not carry the event's values, block timestamp and the Alephium chain id", fmt.Sprintf("%+v", mp), c)
	}
}

func boundaryOf(c evCase) string {
	d := defaults()
	var out []string
	names := []string{"sender", "target chain", "sequence", "nonce", "payload", "consistency level"}
	for i := range c.Fields {
		if i < 6 && c.Fields[i] != d[i] {
			v := c.Fields[i].Value
			if len(v) > 24 {
				v = v[:24] + "..."
			}
			out = append(out, names[i]+"="+v)
		}
	}
	return strings.Join(out, ", ")
}

func attestPayload(tokenId [32]byte, chain uint16, decimals uint8, symbol, name [32]byte) []byte {
	b := []byte{2}
	b = append(b, tokenId[:]...)
	b = append(b, byte(chain>>8), byte(chain))
	b = append(b, decimals)
	b = append(b, symbol[:]...)
	return append(b, name[:]...)
}

// pipeline: the decoders are also reached through the watcher's two paths (event polling, re-observation
// by transaction id). Transactions that carry SEVERAL events (two or three bridge messages with distinct
// values; a bridge message next to a message-shaped event of another contract, in both orders) are run in
// full against the real watcher on the simulated node; on each path every publication must carry exactly
// the values of one core-contract event, and every well-formed core event's values must appear exactly once.
func pipeline() {
	mk := func(seq, target, nonce string, fill byte, cl string, contract string) alphh.Msg {
		return alphh.Msg{Tag: "msg-seq" + seq, Sender: alphh.BridgeID, Contract: contract, Target: target, Seq: seq, Nonce: nonce, Payload: alphh.TransferPayload(fill), CL: cl, Tx: alphh.TxID(1)}
	}
	a, b, c := mk("5", "2", "00000001", 7, "1", alphh.GovID), mk("6", "4", "00000002", 9, "2", alphh.GovID), mk("7", "65535", "ffffffff", 11, "0", alphh.GovID)
	f := mk("99", "3", "00000063", 13, "1", alphh.OtherID) // message-shaped event of another contract, names the bridge as sender
	scen := map[string][]alphh.Msg{
		"two bridge messages in one transaction":        {a, b},
		"two bridge messages, reversed":                 {b, a},
		"three bridge messages in one transaction":      {a, b, c},
		"bridge message then another contract's event":  {a, f},
		"another contract's event then bridge message":  {f, a},
		"bridge, foreign, bridge":                       {a, f, b},
	}
	tuple := func(mp *common.MessagePublication) string {
		return fmt.Sprintf("seq=%d target=%d nonce=%08x cl=%d payload=%x.. (%dB) emitter=%x", mp.Sequence, mp.TargetChain, mp.Nonce, mp.ConsistencyLevel, mp.Payload[:imin(len(mp.Payload), 3)], len(mp.Payload), mp.EmitterAddress[:4])
	}
	want := func(m alphh.Msg) string {
		var seq, tgt, cl uint64
		fmt.Sscan(m.Seq, &seq)
		fmt.Sscan(m.Target, &tgt)
		fmt.Sscan(m.CL, &cl)
		var nonce uint32
		fmt.Sscanf(m.Nonce, "%08x", &nonce)
		pl, _ := hex.DecodeString(m.Payload)
		em, _ := hex.DecodeString(m.Sender)
		return fmt.Sprintf("seq=%d target=%d nonce=%08x cl=%d payload=%x.. (%dB) emitter=%x", seq, tgt, nonce, cl, pl[:imin(len(pl), 3)], len(pl), em[:4])
	}
	n := 0
	for name, msgs := range scen {
		for _, reobsFirst := range []bool{false, true} {
			n++
			w := alphh.NewWorld(false, 10, 100)
			var steps []alphh.Step
			for i := range msgs {
				steps = append(steps, alphh.Step{Op: "emit", Msg: &msgs[i], Block: 1, Height: 11})
			}
			tail := []alphh.Step{{Op: "evtick"}, {Op: "height+", Height: 3}, {Op: "clock", Sec: 60}, {Op: "htick"}, {Op: "reobs", Tx: alphh.TxID(1)}, {Op: "htick"}}
			if reobsFirst {
				tail = []alphh.Step{{Op: "height+", Height: 3}, {Op: "clock", Sec: 60}, {Op: "reobs", Tx: alphh.TxID(1)}, {Op: "evtick"}, {Op: "htick"}, {Op: "htick"}}
			}
			steps = append(steps, tail...)
			got := map[string]map[string]int{"polling": {}, "reobs": {}}
			var pretty []string
			for _, s := range steps {
				pretty = append(pretty, s.String())
				for _, fw := range w.Apply(s) {
					got[fw.Path][tuple(fw.MP)]++
				}
			}
			w.Close()
			rec := map[string]interface{}{"scenario": name, "reobservation_first": reobsFirst, "steps": pretty}
			for path, g := range got {
				exp := map[string]int{}
				for _, m := range msgs {
					if m.Contract == alphh.GovID {
						exp[want(m)]++
					}
				}
				for t, k := range g {
					if exp[t] == 0 {
						r.Violation("pipeline ("+path+" path): a publication carries values that are not those of any core-contract event of the transaction", name+": "+t, rec)
					} else if k > exp[t] {
						r.Violation("pipeline ("+path+" path): one event's values were published more than once", name+": "+t, rec)
					}
				}
				for t := range exp {
					if g[t] == 0 {
						r.Violation("pipeline ("+path+" path): a well-formed event of the transaction was not published with its own values", name+": "+t, rec)
					}
				}
			}
		}
	}
	r.Set("pipeline_scenarios", n)
	r.Add("traces_validated_against_impl", n)
}

// contractAttest: what token_bridge.ral attestToken can EMIT, read from its source at check time: the order of the
// concatenated fields and, for every variable-length argument, the exact size it asserts. The guardian cuts the
// payload at fixed offsets (1, 33, 35, 36, 68, 100); that is only the contract's encoding if every field has
// exactly that width - an assertion on the total length alone lets symbol and name trade bytes.
func contractAttest() {
	b, err := os.ReadFile(filepath.Join(r.Repo, "alephium/contracts/token_bridge/token_bridge.ral"))
	if err != nil {
		ev.Broken("token_bridge.ral: %v", err)
	}
	src := string(b)
	i := strings.Index(src, "pub fn attestToken(")
	if i < 0 {
		ev.Broken("token_bridge.ral: attestToken not found")
	}
	fn := src[i:]
	if j := strings.Index(fn, "\n    }\n"); j > 0 {
		fn = fn[:j]
	}
	sizes := map[string]string{}
	for _, m := range regexp.MustCompile(`assert!\(size!\((\w+)\) == (\d+),`).FindAllStringSubmatch(fn, -1) {
		sizes[m[1]] = m[2]
	}
	pm := regexp.MustCompile(`let payload = PayloadId\.AttestToken \+\+\s*(\w+) \+\+\s*u256To2Byte!\((\w+)\) \+\+\s*u256To1Byte!\((\w+)\) \+\+\s*(\w+) \+\+\s*(\w+)\s*\n`).FindStringSubmatch(fn)
	if pm == nil {
		ev.Broken("token_bridge.ral: attestToken payload concatenation outside the recognised subset")
	}
	r.Set("contract_attest_fields", []string{pm[1] + ":" + sizes[pm[1]], pm[2] + ":2", pm[3] + ":1", pm[4] + ":" + sizes[pm[4]], pm[5] + ":" + sizes[pm[5]]})
	for _, f := range []string{pm[1], pm[4], pm[5]} {
		if sizes[f] != "32" {
			r.Violation("contract encoder: token_bridge.ral attestToken does not pin a field to the 32 bytes the guardian cuts for it", fmt.Sprintf("field %s: asserted size %q (fields in order: %s, chain, decimals, %s, %s)", f, sizes[f], pm[1], pm[4], pm[5]), sizes)
		}
	}
}

func main() {
	r = ev.Start("C11", "exploration")
	nums := numAlphabet()
	alts := make([][]fieldSpec, 6)
	wrong := []fieldSpec{{"Bool", ""}, {"Address", "1DrDyTr9RpRsQnDnXo2YRiPzPW4ooHX5LLoqXrqfMrpQH"}, {"I256", "5"}, {"nil", ""}}
	// sender
	alts[0] = append([]fieldSpec{{"ByteVec", strings.Repeat("00", 32)}, {"ByteVec", strings.Repeat("ff", 32)}, {"ByteVec", goodSender[:62]}, {"ByteVec", goodSender + "00"},
		{"ByteVec", goodSender[:63]}, {"ByteVec", "zz" + goodSender[2:]}, {"ByteVec", ""}, {"U256", "5"}, {"ByteVec-typed-U256", goodSender}}, wrong...)
	for _, fi := range []int{1, 2, 5} {
		for _, n := range nums {
			alts[fi] = append(alts[fi], fieldSpec{"U256", n})
		}
		alts[fi] = append(alts[fi], fieldSpec{"ByteVec", "05"}, fieldSpec{"U256-typed-I256", "5"})
		alts[fi] = append(alts[fi], wrong...)
	}
	alts[3] = append([]fieldSpec{{"ByteVec", ""}, {"ByteVec", "000000"}, {"ByteVec", "00000000"}, {"ByteVec", "ffffffff"}, {"ByteVec", "0000000001"}, {"ByteVec", "123"}, {"U256", "7"}}, wrong...)
	var tid, sym, nam [32]byte
	tid[0], sym[31], nam[0] = 9, 'S', 'N'
	att := attestPayload(tid, 255, 8, sym, nam)
	transfer := append([]byte{1}, bytes.Repeat([]byte{7}, 132)...)
	alts[4] = append([]fieldSpec{{"ByteVec", ""}, {"ByteVec", "00"}, {"ByteVec", hex.EncodeToString(att[:99])}, {"ByteVec", hex.EncodeToString(att)}, {"ByteVec", hex.EncodeToString(append(att, 0))},
		{"ByteVec", hex.EncodeToString(transfer)}, {"ByteVec", "abc"}, {"ByteVec", "0x01"}, {"ByteVec", strings.Repeat("ab", 5000)}, {"U256", "1"}}, wrong...)
	tss := []int64{0, 999, 1000, 1700000000123}
	txs := []string{strings.Repeat("ab", 32), "", "xyz"}

	seen := map[string]bool{}
	var cases []evCase
	add := func(c evCase) {
		k := fmt.Sprint(c)
		if !seen[k] {
			seen[k] = true
			cases = append(cases, c)
		}
	}
	d := defaults()
	add(evCase{d, txs[0], tss[3]})
	for i := 0; i < 6; i++ {
		for _, a := range alts[i] {
			f := append([]fieldSpec{}, d...)
			f[i] = a
			for _, ts := range tss {
				add(evCase{f, txs[0], ts})
			}
			for j := i + 1; j < 6; j++ {
				for _, b := range alts[j] {
					g := append([]fieldSpec{}, f...)
					g[j] = b
					add(evCase{g, txs[0], tss[3]})
				}
			}
		}
	}
	for _, tx := range txs {
		add(evCase{d, tx, tss[1]})
	}
	// field counts 0..8
	for n := 0; n <= 8; n++ {
		f := append([]fieldSpec{}, d...)
		for len(f) < n {
			f = append(f, fieldSpec{"U256", "1"})
		}
		add(evCase{f[:n], txs[0], tss[3]})
	}
	mc.ParallelFor(len(cases), func(i int) { check(cases[i]) })
	r.Set("event_cases", len(cases))

	// ---- conversions: mutually inverse
	ids := 0
	for i := 0; i < 64; i++ {
		var id alephium.Byte32
		switch {
		case i == 0:
		case i == 1:
			for k := range id {
				id[k] = 0xff
			}
		default:
			for k := range id {
				id[k] = byte(i*31 + k*7)
			}
			if i%2 == 0 {
				id[0] = 0
			}
		}
		ids++
		hx := id.ToHex()
		back, err := alephium.HexToByte32(hx)
		if err != nil || back != id || hx != hex.EncodeToString(id[:]) {
			r.Violation("HexToByte32(ToHex(id)) != id", hx, hx)
		}
		addr, err := alephium.ToContractAddress(hx)
		if err != nil {
			r.Violation("ToContractAddress fails on a 32-byte id", err.Error(), hx)
			continue
		}
		id2, err := alephium.ToContractId(*addr)
		if err != nil || id2 != id {
			r.Violation("ToContractId(ToContractAddress(id)) != id", hx+" -> "+*addr, hx)
		}
	}
	for _, bad := range []string{"", "ab", strings.Repeat("ab", 31), strings.Repeat("ab", 33), strings.Repeat("zz", 32)} {
		if _, err := alephium.HexToByte32(bad); err == nil {
			r.Violation("HexToByte32 accepts a string that is not 32 hex bytes", bad, bad)
		}
		ids++
	}
	// ---- attestation payloads against an encoder written from token_bridge.ral's attestToken
	atts := 0
	for _, dec := range []uint8{0, 8, 18, 255} {
		for si, s := range []string{"", "S", "SYMBOL-32-BYTES-LONG-0123456789!", "a b"} {
			for lp := 0; lp < 6; lp++ {
				leftPad := lp%2 == 0
				var tid, sym, nam [32]byte
				tid[31], tid[0] = byte(si+1), dec
				switch lp / 2 { // token ids with a meaning of their own: all zero is the native token (ALPH), all ones
				case 1:
					tid = [32]byte{}
				case 2:
					for k := range tid {
						tid[k] = 0xff
					}
				}
				put := func(dst *[32]byte, v string) {
					if leftPad {
						copy(dst[32-len(v):], v)
					} else {
						copy(dst[:], v)
					}
				}
				put(&sym, s)
				put(&nam, "name:"+s[:imin(len(s), 20)])
				p := attestPayload(tid, 255, dec, sym, nam)
				atts++
				ti, err := alephium.VerifParseAttestToken(p)
				if err != nil {
					r.Violation("parseAttestToken rejects a payload encoded as the contract encodes it", err.Error(), hex.EncodeToString(p))
					continue
				}
				if ti.TokenId != alephium.Byte32(tid) || ti.Decimals != dec || ti.Symbol != s || ti.Name != "name:"+s[:imin(len(s), 20)] {
					r.Violation("parseAttestToken decodes other token id / decimals / symbol / name than the contract encoded", fmt.Sprintf("%+v", ti), hex.EncodeToString(p))
				}
				for _, l := range []int{99, 101} {
					q := append(append([]byte{}, p...), 0)[:l]
					if _, err := alephium.VerifParseAttestToken(q); err == nil {
						r.Violation("parseAttestToken accepts a payload of the wrong length", fmt.Sprint(l), hex.EncodeToString(q))
					}
					atts++
				}
				q := append([]byte{}, p...)
				q[34] = 2 // token chain id != Alephium
				if _, err := alephium.VerifParseAttestToken(q); err == nil {
					r.Violation("parseAttestToken accepts an attestation of another chain's token", "", hex.EncodeToString(q))
				}
				atts++
			}
		}
	}
	r.Set("conversion_cases", ids)
	r.Set("attestation_cases", atts)
	r.Set("evaluations", int(evals)+ids+atts)
	r.Set("distinct_nontrivial", len(cases)-1+ids+atts)
	r.Sample(cases[0])
	r.Sample(cases[len(cases)/2])
	r.Sample(cases[len(cases)-3])
	r.Set("rule", "events: default well-formed event with every single field and every PAIR of fields replaced by each value of that field's boundary alphabet (26 numerals incl. 0,1,254..256,65534..65536,2^32,2^64-1,2^64,2^64+2,2^80,2^128+255,2^256-1 and non-numeric / prefixed / underscored / leading-zero strings; wrong Val variants and mismatched type tags; sender/nonce/payload length and hex shapes), single-field cases x 4 block timestamps, field counts 0..8, deduplicated; every case except the default is non-trivial; plus 69 conversion identities and the attestation encodings")
	r.Assume("a node reports U256 values as plain decimal numerals; explicitly signed spellings (+7, -5) are not judged")
	pipeline()
	contractAttest()
	r.Finish()
}

func imin(a, b int) int {
	if a < b {
		return a
	}
	return b
}
