// C16: acknowledged VAA writes survive a crash of the node.
// Crash-point enumeration from outside the process against the real db.Open / StoreSignedVAA / Close
// (badger with the repository's options, on disk): (1) SIGKILL at every store boundary of a write
// history, (2) SIGKILL injected by strace at every N-th write-path syscall of the first open, of a
// run of stores, of the RE-OPEN of an already killed directory (recovery itself is killed) and of a
// clean Close, (3) chains of such cycles on the same directory. After every kill a verifier process
// reopens the directory with the real db.Open and reads every identifier.
package main

import (
	"bufio"
	"bytes"
	"crypto/sha256"
	"encoding/hex"
	"encoding/json"
	"fmt"
	"os"
	"os/exec"
	"path/filepath"
	"strconv"
	"strings"
	"sync"
	"sync/atomic"
	"syscall"
	"time"

	"github.com/alephium/wormhole-fork/node/pkg/db"
	"github.com/alephium/wormhole-fork/node/pkg/vaa"
	"github.com/alephium/wormhole-fork/node/verifh/ev"
	"github.com/alephium/wormhole-fork/node/verifh/mc"
)

// ---- the write history (deterministic): store k writes id ids[k] with version ver[k]
type op struct {
	ID   int `json:"id"`
	Ver  int `json:"ver"`
	Size int `json:"payload_bytes"`
}

// kinds: "" the base history; "bulk" base + 70 x 1 MiB; "edge" values whose MARSHALLED length sits on the
// 1 MiB boundary where the store switches from in-tree values to the value log (125 + payload bytes for one
// signature, 191 for two), with overwrites across the boundary in both directions.
func history(kind string) []op {
	if kind == "edge" {
		const MiB = 1 << 20
		return []op{{0, 0, MiB - 125 - 1}, {1, 0, MiB - 125}, {2, 0, MiB - 125 + 1}, {0, 1, MiB - 191}, {1, 1, MiB - 191 - 1}, {3, 0, 10}, {2, 1, 7}, {100, 0, 11}, {103, 0, 12}, {200, 0, 13}, {201, 0, 14}, {202, 0, 15}}
	}
	bulk := kind == "bulk"
	h := []op{{0, 0, 1}, {1, 0, 900}, {2, 0, 4096}, {0, 1, 1}, {3, 0, 64}, {1, 1, 900}, {4, 0, 2000}, {0, 2, 5}}
	if bulk {
		for i := 0; i < 70; i++ {
			h = append(h, op{10 + i%35, i / 35, 1 << 20})
		}
	}
	return h
}

func mkVAA(o op) *vaa.VAA {
	vid := idOf(o.ID)
	v := &vaa.VAA{Version: 1, GuardianSetIndex: uint32(o.Ver), Timestamp: time.Unix(1700000000, 0), Sequence: vid.Sequence, EmitterChain: vid.EmitterChain, TargetChain: vid.TargetChain, ConsistencyLevel: 1}
	v.EmitterAddress = vid.EmitterAddress
	v.Payload = make([]byte, o.Size)
	for i := range v.Payload {
		v.Payload[i] = byte(i*7 + o.ID)
	}
	for s := 0; s <= o.Ver; s++ { // another signature set per version, same body
		sg := &vaa.Signature{Index: uint8(s)}
		for k := range sg.Signature {
			sg.Signature[k] = byte(k + o.Ver*16 + s)
		}
		v.Signatures = append(v.Signatures, sg)
	}
	return v
}

func idOf(i int) vaa.VAAID {
	var a vaa.Address
	a[31] = 0x42
	if i >= 200 {
		// ids 200+k: one emitter (chain 1, address ..04) sending the SAME sequence k/2 to target chain 2 (k even)
		// and 255 (k odd): two identifiers, both must come back from the point lookup and from the batch lookup
		var g vaa.Address
		g[31] = 4
		t := vaa.ChainID(2)
		if i%2 == 1 {
			t = 255
		}
		return vaa.VAAID{EmitterChain: 1, EmitterAddress: g, TargetChain: t, Sequence: uint64((i - 200) / 2)}
	}
	if i >= 100 {
		// ids 100+k: the same emitter and sequence k, target chain 258 = 2 + 256 (testnet chain ids are above 255:
		// another identifier, another key, whatever the low byte)
		return vaa.VAAID{EmitterChain: 255, EmitterAddress: a, TargetChain: 258, Sequence: uint64(i - 100)}
	}
	return vaa.VAAID{EmitterChain: 255, EmitterAddress: a, TargetChain: 2, Sequence: uint64(i)}
}

// ---- child: opens the store, runs history[from:to], prints ACK lines; optional self-kill / clean close
func child(args []string) {
	dir := args[0]
	from, _ := strconv.Atoi(args[1])
	to, _ := strconv.Atoi(args[2])
	mode := args[3] // selfkill | close | hang
	bulk := ""
	if len(args) > 4 {
		bulk = args[4]
	}
	h := history(bulk)
	out := bufio.NewWriterSize(os.Stdout, 0)
	say := func(s string) { os.Stdout.WriteString(s + "\n") }
	_ = out
	say("PHASE open")
	d, err := db.Open(dir)
	if err != nil {
		say("OPENERR " + err.Error())
		os.Exit(3)
	}
	say("PHASE stores")
	stdin := bufio.NewReader(os.Stdin)
	if mode == "pause" {
		say("READY")
		stdin.ReadString('\n') // snapshot of the state before the first store
	}
	for k := from; k < to; k++ {
		// read-your-writes inside the process: a lookup BEFORE the store (a miss, or the previous version -
		// relayers poll for VAAs that have not reached quorum yet) and one right after the acknowledgement
		v := mkVAA(h[k])
		want, _ := v.Marshal()
		prev := ""
		for j := 0; j < k; j++ {
			if h[j].ID == h[k].ID {
				prev = expectVal(h[j])
			}
		}
		pre, preErr := d.GetSignedVAABytes(idOf(h[k].ID))
		switch {
		case preErr == db.ErrVAANotFound && prev == "":
		case preErr == nil && (fingerprint(pre) == prev || bytes.Equal(pre, want)): // previous version, or this store was in flight when the last process was killed
		default:
			say(fmt.Sprintf("READBACK-BAD before store %d: lookup returned err=%v, %d bytes; want the previous version or not-found", k, preErr, len(pre)))
		}
		if err := d.StoreSignedVAA(v); err != nil {
			say(fmt.Sprintf("STOREERR %d %v", k, err))
			os.Exit(4)
		}
		if mode == "instantkill" && k == to-1 {
			// the kill lands at the very instant the store is acknowledged: nothing runs between the return of
			// StoreSignedVAA and the SIGKILL (no report, no lookup that would wait for pending writes; the parent
			// runs this child with GOMAXPROCS=1 so that no other goroutine runs in between either)
			syscall.Kill(os.Getpid(), syscall.SIGKILL)
			select {}
		}
		say(fmt.Sprintf("ACK %d", k))
		if got, err := d.GetSignedVAABytes(idOf(h[k].ID)); err != nil || !bytes.Equal(got, want) {
			say(fmt.Sprintf("READBACK-BAD after store %d: lookup in the same process returned err=%v, %d bytes; want the %d bytes just acknowledged", k, err, len(got), len(want)))
		}
		if mode == "pause" {
			stdin.ReadString('\n') // the parent copies the directory image, then lets us continue
		}
	}
	switch mode {
	case "selfkill":
		syscall.Kill(os.Getpid(), syscall.SIGKILL)
		select {}
	case "close", "closestore":
		say("PHASE close")
		if err := d.Close(); err != nil {
			say("CLOSEERR " + err.Error())
			os.Exit(5)
		}
		say("CLOSED")
		if mode == "closestore" && to < len(h) {
			// a store that arrives after the store was closed (in the node the close is a deferred call while the
			// processor is still running): refused with an error, or - if it is acknowledged - found afterwards
			func() {
				defer func() {
					if p := recover(); p != nil {
						say(fmt.Sprintf("LATESTORE-PANIC %v", p))
					}
				}()
				if err := d.StoreSignedVAA(mkVAA(h[to])); err == nil {
					say(fmt.Sprintf("ACK %d", to))
				} else {
					say("LATESTORE-REFUSED " + err.Error())
				}
			}()
		}
	}
	os.Exit(0)
}

// ---- verifier: reopens and dumps every identifier
type dump struct {
	OpenErr string            `json:"open_err,omitempty"`
	Vals    map[string]string `json:"vals"` // id -> hex of stored bytes ("" = not found)
	Errs    map[string]string `json:"errs,omitempty"`
}

func verifier(dir string, bulk string) {
	res := dump{Vals: map[string]string{}, Errs: map[string]string{}}
	d, err := db.Open(dir)
	if err != nil {
		res.OpenErr = err.Error()
	} else {
		seen := map[int]bool{}
		for _, o := range history(bulk) {
			if seen[o.ID] {
				continue
			}
			seen[o.ID] = true
			b, err := d.GetSignedVAABytes(idOf(o.ID))
			switch {
			case err == db.ErrVAANotFound:
				res.Vals[fmt.Sprint(o.ID)] = ""
			case err != nil:
				res.Errs[fmt.Sprint(o.ID)] = err.Error()
			default:
				res.Vals[fmt.Sprint(o.ID)] = fingerprint(b)
			}
		}
		// the store's second lookup path: the batch lookup by emitter and sequences must return every stored VAA of
		// that emitter with one of the asked sequences (the same sequence may exist for several target chains)
		if bulk == "edge" {
			var g vaa.Address
			g[31] = 4
			if got, err := d.GetGovernanceVAABatch(1, g, []uint64{0, 1}); err != nil {
				res.Errs["batch"] = err.Error()
			} else {
				for _, gv := range got {
					for _, o := range history(bulk) {
						if vid := idOf(o.ID); o.ID >= 200 && vid.TargetChain == gv.TargetChain && vid.Sequence == gv.Sequence {
							res.Vals[fmt.Sprintf("batch:%d", o.ID)] = fingerprint(gv.VaaBytes)
						}
					}
				}
				for _, o := range history(bulk) {
					if o.ID >= 200 {
						if _, ok := res.Vals[fmt.Sprintf("batch:%d", o.ID)]; !ok {
							res.Vals[fmt.Sprintf("batch:%d", o.ID)] = ""
						}
					}
				}
			}
		}
		d.Close()
	}
	json.NewEncoder(os.Stdout).Encode(res)
	os.Exit(0)
}

// fingerprint: readable prefix, length and a digest of ALL bytes
func fingerprint(b []byte) string {
	return hex.EncodeToString(b[:imin(len(b), 40)]) + fmt.Sprintf("/%d/%x", len(b), sha256.Sum256(b))
}

func imin(a, b int) int {
	if a < b {
		return a
	}
	return b
}

// ---- parent
var r *ev.Run
var kills, opens int64

type scenario struct {
	Name   string   `json:"scenario"`
	Steps  []string `json:"steps"`
	Acked  int      `json:"acked_stores"`
}

func expectVal(o op) string {
	b, _ := mkVAA(o).Marshal()
	return fingerprint(b)
}

// check reopens dir and compares with acked (number of acknowledged stores) and inflight (index of
// a store that may or may not have happened, -1 none).
func check(self, dir string, bulk string, acked int, inflight []int, sc scenario) {
	atomic.AddInt64(&opens, 1)
	args := []string{"verify", dir}
	if bulk != "" {
		args = append(args, bulk)
	}
	out, err := exec.Command(self, args...).Output()
	var d dump
	if err != nil || json.Unmarshal(out, &d) != nil {
		r.Violation("verifier process crashed while reopening the store after a kill", fmt.Sprintf("%v %s", err, out), sc)
		return
	}
	if d.OpenErr != "" {
		r.Violation("store does not reopen after a kill: "+generalise(d.OpenErr), d.OpenErr, sc)
		return
	}
	h := history(bulk)
	for idStr, got := range d.Vals {
		viaBatch := strings.HasPrefix(idStr, "batch:")
		id, _ := strconv.Atoi(strings.TrimPrefix(idStr, "batch:"))
		want := ""  // last acknowledged
		for k := 0; k < acked; k++ {
			if h[k].ID == id {
				want = expectVal(h[k])
			}
		}
		okVals := map[string]bool{want: true}
		for _, k := range inflight {
			if k >= 0 && k < len(h) && h[k].ID == id {
				okVals[expectVal(h[k])] = true
			}
		}
		if !okVals[got] {
			switch {
			case got == "" && want != "" && viaBatch:
				r.Violation("an acknowledged VAA is not returned by the batch lookup (point lookup is judged separately)", fmt.Sprintf("id %d", id), sc)
			case got == "" && want != "":
				r.Violation("an acknowledged VAA is not found after the kill", fmt.Sprintf("id %d", id), sc)
			case want != "" && isSomeVersion(h, id, got):
				r.Violation("lookup after the kill returns an older version than the last acknowledged store", fmt.Sprintf("id %d", id), sc)
			default:
				r.Violation("lookup after the kill returns bytes that were never stored under that identifier (or not acknowledged and not in flight)", fmt.Sprintf("id %d got %.40s", id, got), sc)
			}
		}
	}
	for id, e := range d.Errs {
		r.Violation("lookup fails with an error after the kill", id+": "+e, sc)
	}
}

func isSomeVersion(h []op, id int, got string) bool {
	for _, o := range h {
		if o.ID == id && expectVal(o) == got {
			return true
		}
	}
	return false
}

// generaliseFile: 000012.sst -> *.sst (violation keys must not depend on file numbers)
func generaliseFile(f string) string {
	if i := strings.LastIndex(f, "."); i > 0 {
		return "*" + f[i:]
	}
	return f
}

func generalise(s string) string {
	if strings.Contains(s, "Create a new file") {
		switch {
		case strings.Contains(s, "memtable"):
			return "a zero-length memtable file left by the kill is reported as an error (Create a new file)"
		case strings.Contains(s, "vlog"):
			return "a zero-length value-log file left by the kill is reported as an error (Create a new file)"
		}
		return "a zero-length file left by the kill is reported as an error (Create a new file)"
	}
	for _, m := range []string{"in use by another process", "Cannot acquire directory lock", "MANIFEST", "checksum", "truncate"} {
		if strings.Contains(s, m) {
			return m
		}
	}
	if len(s) > 60 {
		return s[:60]
	}
	return s
}

// runChild runs the child (optionally under strace with a kill at the n-th syscall of the set) and
// returns the number of ACKs seen and whether it died by signal.
func runChild(self, dir string, from, to int, mode string, bulk string, straceN int) (acks int, killed bool, phases []string, raw string) {
	return runChildAt(self, dir, from, to, mode, bulk, straceN, nil)
}

// target: kill at the k-th call (per thread) of ONE syscall on ONE file of the store directory (strace -P).
type target struct {
	File    string `json:"file"`
	Syscall string `json:"syscall"`
	K       int    `json:"occurrence"`
}

const pathSyscalls = "openat,ftruncate,write,pwrite64,fsync,fdatasync,rename,renameat,unlink,unlinkat,mmap,munmap,close,msync,fallocate"

// dryRun lists the (file, syscall) pairs the child touches inside dir, with call counts.
func dryRun(self, dir string, from, to int, mode, kind, tracefile string) map[[2]string]int {
	args := []string{"-f", "-y", "-q", "-o", tracefile, "-e", "trace=" + pathSyscalls, self, "child", dir, fmt.Sprint(from), fmt.Sprint(to), mode}
	if kind != "" {
		args = append(args, kind)
	}
	exec.Command("strace", args...).Run()
	b, _ := os.ReadFile(tracefile)
	os.Remove(tracefile)
	out := map[[2]string]int{}
	for _, line := range strings.Split(string(b), "\n") {
		f := strings.Fields(line)
		if len(f) < 2 {
			continue
		}
		call := f[1]
		i := strings.Index(call, "(")
		if i <= 0 {
			continue
		}
		sysc := call[:i]
		rest := line
		seen := map[string]bool{}
		for {
			j := strings.Index(rest, dir+"/")
			if j < 0 {
				break
			}
			rest = rest[j+len(dir)+1:]
			k := 0
			for k < len(rest) && (rest[k] == '.' || rest[k] == '_' || rest[k] >= '0' && rest[k] <= '9' || rest[k] >= 'A' && rest[k] <= 'Z' || rest[k] >= 'a' && rest[k] <= 'z') {
				k++
			}
			if name := rest[:k]; name != "" && !seen[name] {
				seen[name] = true
				out[[2]string{name, sysc}]++
			}
		}
	}
	return out
}

func runChildAt(self, dir string, from, to int, mode string, bulk string, straceN int, tg *target) (acks int, killed bool, phases []string, raw string) {
	args := []string{"child", dir, fmt.Sprint(from), fmt.Sprint(to), mode}
	if bulk != "" {
		args = append(args, bulk)
	}
	var cmd *exec.Cmd
	if tg != nil {
		sa := []string{"-f", "-q", "-o", "/dev/null", "-e", "trace=" + tg.Syscall, "-P", filepath.Join(dir, tg.File), "-e", fmt.Sprintf("inject=%s:signal=SIGKILL:when=%d", tg.Syscall, tg.K), self}
		cmd = exec.Command("strace", append(sa, args...)...)
	} else if straceN > 0 {
		set := "write,pwrite64,writev,pwritev,fsync,fdatasync,msync,ftruncate,fallocate,rename,renameat,renameat2,unlink,unlinkat,openat,mmap,munmap,close,mremap,madvise"
		sa := []string{"-f", "-q", "-o", "/dev/null", "-e", "trace=" + set, "-e", fmt.Sprintf("inject=%s:signal=SIGKILL:when=%d", set, straceN), self}
		cmd = exec.Command("strace", append(sa, args...)...)
	} else {
		cmd = exec.Command(self, args...)
	}
	var buf bytes.Buffer
	cmd.Stdout = &buf
	if mode == "instantkill" {
		cmd.Env = append(os.Environ(), "GOMAXPROCS=1")
	}
	err := cmd.Run()
	raw = buf.String()
	acks = from
	for _, l := range strings.Split(raw, "\n") {
		if strings.HasPrefix(l, "READBACK-BAD") {
			what := "after"
			if strings.Contains(l, "before store") {
				what = "before"
			}
			r.Violation("a lookup in the storing process, "+what+" the acknowledged store, does not return the stored VAA", l, scenario{Name: "read-your-writes in the storing process", Steps: []string{fmt.Sprintf("child stores %d..%d of history %q, mode %s", from, to, bulk, mode)}, Acked: from})
		}
		if strings.HasPrefix(l, "ACK ") {
			k, _ := strconv.Atoi(l[4:])
			acks = k + 1
		}
		if strings.HasPrefix(l, "PHASE ") {
			phases = append(phases, l[6:])
		}
	}
	if err != nil {
		if ee, ok := err.(*exec.ExitError); ok {
			if ws, ok := ee.Sys().(syscall.WaitStatus); ok && (ws.Signaled() || ws.ExitStatus() >= 128) {
				killed = true
			}
		}
	}
	return
}

// tornFamily prepares the images and appends one job per torn image. step: cut-point stride in bytes.
func tornFamily(self, base string, h []op, step int, jobs *[]func()) *int64 {
	var count int64
	imgDir := filepath.Join(base, "images")
	os.MkdirAll(imgDir, 0o755)
	live := filepath.Join(base, "live")
	cmd := exec.Command(self, "child", live, "0", fmt.Sprint(len(h)), "pause")
	stdin, _ := cmd.StdinPipe()
	stdout, _ := cmd.StdoutPipe()
	if err := cmd.Start(); err != nil {
		ev.Broken("torn family: %v", err)
	}
	rd := bufio.NewReader(stdout)
	snap := func(k int) string {
		d := filepath.Join(imgDir, fmt.Sprintf("img%d", k))
		if out, err := exec.Command("cp", "-r", "--sparse=always", live, d).CombinedOutput(); err != nil {
			ev.Broken("copy image: %v %s", err, out)
		}
		return d
	}
	var imgs []string
	for {
		line, err := rd.ReadString('\n')
		if err != nil {
			break
		}
		line = strings.TrimSpace(line)
		if line == "READY" || strings.HasPrefix(line, "ACK ") {
			imgs = append(imgs, snap(len(imgs)))
			stdin.Write([]byte("go\n"))
			if len(imgs) == len(h)+1 {
				break
			}
		}
	}
	cmd.Process.Kill()
	cmd.Wait()
	if len(imgs) != len(h)+1 {
		// the child could not open the store or a store failed: that is the code under test misbehaving (the
		// boundary-kill family runs the same child and reports it), not a harness fault; no images to cut
		r.Violation("child did not run as scripted (store or open failed before the kill)", fmt.Sprintf("torn-image child produced %d of %d directory images", len(imgs), len(h)+1), scenario{Name: "torn images", Steps: []string{"open, stores with a pause after every acknowledgement"}})
		return &count
	}
	for k := 1; k <= len(h); k++ {
		k := k
		old, nw := imgs[k-1], imgs[k]
		files, _ := os.ReadDir(nw)
		for _, fe := range files {
			if fe.IsDir() {
				continue
			}
			name := fe.Name()
			a, errA := os.ReadFile(filepath.Join(old, name))
			b, _ := os.ReadFile(filepath.Join(nw, name))
			if errA != nil || len(a) != len(b) {
				continue // file created or resized during this store: whole-file states are covered by the kill families
			}
			lo, hi := -1, -1
			for i := range b {
				if a[i] != b[i] {
					if lo < 0 {
						lo = i
					}
					hi = i + 1
				}
			}
			if lo < 0 {
				continue
			}
			var cuts []int
			for p := lo; p <= hi; p += step {
				cuts = append(cuts, p)
			}
			cuts = append(cuts, hi-1, lo+1)
			seenCut := map[int]bool{}
			for _, p := range cuts {
				if seenCut[p] || p < lo || p > hi {
					continue // each cut once: two jobs on one directory name would remove each other's image
				}
				seenCut[p] = true
				for _, prefix := range []bool{true, false} {
					p, prefix := p, prefix
					*jobs = append(*jobs, func() {
						dir := filepath.Join(base, fmt.Sprintf("torn-%d-%s-%d-%v", k, name, p, prefix))
						defer os.RemoveAll(dir)
						if out, err := exec.Command("cp", "-r", "--sparse=always", old, dir).CombinedOutput(); err != nil {
							ev.Broken("copy: %v %s", err, out)
						}
						f, err := os.OpenFile(filepath.Join(dir, name), os.O_WRONLY, 0)
						if err != nil {
							ev.Broken("%v", err)
						}
						if prefix {
							f.WriteAt(b[lo:p], int64(lo))
						} else {
							f.WriteAt(b[p:hi], int64(p))
						}
						f.Close()
						atomic.AddInt64(&count, 1)
						atomic.AddInt64(&kills, 1)
						part := "first"
						if !prefix {
							part = "last"
						}
						sc := scenario{Name: "torn image of one store", Steps: []string{fmt.Sprintf("stores 0..%d acknowledged; store %d copied only partly: the %s part of bytes [%d,%d) of %s up to/from offset %d is new", k-1, k-1, part, lo, hi, name, p)}, Acked: k - 1}
						check(self, dir, "", k-1, []int{k - 1}, sc)
					})
				}
			}
		}
	}
	return &count
}

func main() {
	if len(os.Args) > 1 && os.Args[1] == "child" {
		child(os.Args[2:])
	}
	if len(os.Args) > 1 && os.Args[1] == "verify" {
		kind := ""
		if len(os.Args) > 3 {
			kind = os.Args[3]
		}
		verifier(os.Args[2], kind)
	}
	r = ev.Start("C16", "fault_enumeration")
	self, _ := os.Executable()
	base := filepath.Join("/var/tmp", fmt.Sprintf("verif-c16-%d", os.Getpid()))
	os.MkdirAll(base, 0o755)
	defer os.RemoveAll(base)
	var dirN int64
	var lateStores int64
	newDir := func() string {
		d := filepath.Join(base, fmt.Sprintf("d%d", atomic.AddInt64(&dirN, 1)))
		return d
	}
	h := history("")
	var jobs []func()
	var mu sync.Mutex
	lastAck := map[int]bool{}
	note := func(a int) { mu.Lock(); lastAck[a] = true; mu.Unlock() }

	// ---- family 1: kill at every store boundary, then chained: reopen, continue, kill again (>= 3 links)
	for k := 0; k <= len(h); k++ {
		k := k
		jobs = append(jobs, func() {
			dir := newDir()
			defer os.RemoveAll(dir)
			acks, killed, _, raw := runChild(self, dir, 0, k, "selfkill", "", 0)
			atomic.AddInt64(&kills, 1)
			sc := scenario{Name: "kill at store boundary", Steps: []string{fmt.Sprintf("stores 0..%d then SIGKILL", k)}, Acked: acks}
			if !killed || acks != k {
				r.Violation("child did not run as scripted (store or open failed before the kill)", raw, sc)
				return
			}
			note(acks)
			check(self, dir, "", acks, nil, sc)
			// chain: continue in two more links on the same directory
			pos := k
			for link := 0; link < 3 && pos < len(h); link++ {
				next := pos + 1 + (len(h)-pos-1)/2
				if next > len(h) {
					next = len(h)
				}
				a2, killed2, _, raw2 := runChild(self, dir, pos, next, "selfkill", "", 0)
				atomic.AddInt64(&kills, 1)
				sc.Steps = append(sc.Steps, fmt.Sprintf("reopen, stores %d..%d then SIGKILL", pos, next))
				sc.Acked = a2
				if !killed2 || a2 != next {
					r.Violation("store does not reopen / accept writes after a kill (chained cycle)", raw2, sc)
					return
				}
				check(self, dir, "", a2, nil, sc)
				pos = next
			}
		})
	}
	// ---- family 1c: the kill lands at the instant of the acknowledgement (the child kills itself as the very next
	// thing after StoreSignedVAA returned nil, single P): "acknowledged" must already mean "will be found"
	for _, kind := range []string{"", "edge"} {
		hk := history(kind)
		for k := 1; k <= len(hk); k++ {
			k, kind := k, kind
			jobs = append(jobs, func() {
				dir := newDir()
				defer os.RemoveAll(dir)
				acks, killed, _, raw := runChild(self, dir, 0, k, "instantkill", kind, 0)
				atomic.AddInt64(&kills, 1)
				sc := scenario{Name: "kill at the instant of the acknowledgement", Steps: []string{fmt.Sprintf("history %q: stores 0..%d, SIGKILL as the next instruction after store %d returned nil", kind, k, k-1)}, Acked: k}
				if !killed || acks != k-1 {
					r.Violation("child did not run as scripted (store or open failed before the kill)", raw, sc)
					return
				}
				check(self, dir, kind, k, nil, sc)
			})
		}
	}
	// ---- family 1d: a store after Close (shutdown race): whatever StoreSignedVAA acknowledges must be found when the
	// directory is opened again
	for k := 0; k < len(h); k++ {
		k := k
		jobs = append(jobs, func() {
			dir := newDir()
			defer os.RemoveAll(dir)
			acks, _, _, raw := runChild(self, dir, 0, k, "closestore", "", 0)
			sc := scenario{Name: "store after Close", Steps: []string{fmt.Sprintf("stores 0..%d, Close, then store %d", k, k)}, Acked: acks}
			if !strings.Contains(raw, "CLOSED") {
				r.Violation("child did not run as scripted (store, open or close failed)", raw, sc)
				return
			}
			atomic.AddInt64(&lateStores, 1)
			check(self, dir, "", acks, nil, sc)
		})
	}
	// ---- family 2: strace-injected kills at every syscall index N of a phase
	// measure the largest useful N per phase with a dry run under strace -c
	maxN := func(from, to int, mode string, prepared func(dir string)) int {
		// kills are injected for N = 1..; the sweep stops after 3 consecutive N at which the child was not killed
		return 0
	}
	_ = maxN
	type sweep struct {
		name    string
		prepare func(dir string) (from int) // brings the directory into the starting state, returns acked count
		to      int
		mode    string
		limit   int
	}
	limit := r.Pick(120, 400)
	sweeps := []sweep{
		{"first open + all stores + hang", func(string) int { return 0 }, len(h), "selfkill", limit},
		{"first open + all stores + clean close", func(string) int { return 0 }, len(h), "close", limit},
		{"reopen of a directory killed after 5 stores (recovery is killed), then stores 5..8 + close", func(dir string) int {
			runChild(self, dir, 0, 5, "selfkill", "", 0)
			return 5
		}, len(h), "close", limit},
		{"reopen of a cleanly closed directory, then stores 4..8 + close", func(dir string) int {
			runChild(self, dir, 0, 4, "close", "", 0)
			return 4
		}, len(h), "close", limit},
	}
	var sweepMu sync.Mutex
	sweepKilled := map[string]int{}
	for _, sw := range sweeps {
		sw := sw
		for n := 1; n <= sw.limit; n++ {
			n := n
			jobs = append(jobs, func() {
				dir := newDir()
				defer os.RemoveAll(dir)
				from := sw.prepare(dir)
				acks, killed, phases, _ := runChild(self, dir, from, sw.to, sw.mode, "", n)
				if !killed {
					return // N beyond the per-thread syscall count of this run
				}
				atomic.AddInt64(&kills, 1)
				sweepMu.Lock()
				sweepKilled[sw.name]++
				sweepMu.Unlock()
				note(acks)
				phase := "before open"
				if len(phases) > 0 {
					phase = phases[len(phases)-1]
				}
				sc := scenario{Name: "strace-injected SIGKILL", Steps: []string{sw.name, fmt.Sprintf("SIGKILL at write-path syscall #%d (per thread), phase %s, %d stores acknowledged", n, phase, acks)}, Acked: acks}
				inflight := []int{acks}
				check(self, dir, "", acks, inflight, sc)
				// recovery of the killed directory is itself the next link: reopen, continue to the end, close, verify
				a2, _, _, raw2 := runChild(self, dir, acks, len(h), "close", "", 0)
				sc.Steps = append(sc.Steps, "reopen, remaining stores, clean close")
				sc.Acked = a2
				if a2 != len(h) || !strings.Contains(raw2, "CLOSED") {
					r.Violation("store does not reopen / accept writes after a kill (chained cycle)", raw2, sc)
					return
				}
				check(self, dir, "", a2, nil, sc)
			})
		}
	}
	// ---- family 4: values on the in-tree / value-log size boundary: kill at every store boundary, reopen,
	// verify, continue to the end, clean close, verify; plus strace-injected kills inside the stores
	he := history("edge")
	for k := 1; k <= len(he); k++ {
		k := k
		jobs = append(jobs, func() {
			dir := newDir()
			defer os.RemoveAll(dir)
			acks, killed, _, raw := runChild(self, dir, 0, k, "selfkill", "edge", 0)
			atomic.AddInt64(&kills, 1)
			sc := scenario{Name: "kill at store boundary, values of 1 MiB-1 / 1 MiB / 1 MiB+1 marshalled bytes", Steps: []string{fmt.Sprintf("stores 0..%d then SIGKILL", k)}, Acked: acks}
			if !killed || acks != k {
				r.Violation("child did not run as scripted (store or open failed before the kill)", raw, sc)
				return
			}
			check(self, dir, "edge", acks, nil, sc)
			a2, _, _, raw2 := runChild(self, dir, acks, len(he), "close", "edge", 0)
			sc.Steps = append(sc.Steps, "reopen, remaining stores, clean close")
			sc.Acked = a2
			if a2 != len(he) || !strings.Contains(raw2, "CLOSED") {
				r.Violation("store does not reopen / accept writes after a kill (chained cycle)", raw2, sc)
				return
			}
			check(self, dir, "edge", a2, nil, sc)
		})
	}
	for n := 1; n <= r.Pick(60, 300); n++ {
		n := n
		jobs = append(jobs, func() {
			dir := newDir()
			defer os.RemoveAll(dir)
			acks, killed, _, _ := runChild(self, dir, 0, len(he), "close", "edge", n)
			if !killed {
				return
			}
			atomic.AddInt64(&kills, 1)
			sc := scenario{Name: "strace-injected SIGKILL while storing values on the 1 MiB boundary", Steps: []string{fmt.Sprintf("SIGKILL at syscall #%d, %d stores acknowledged", n, acks)}, Acked: acks}
			check(self, dir, "edge", acks, []int{acks}, sc)
		})
	}
	// ---- family 5: path-targeted kills. A dry run under strace lists every (file of the store directory,
	// syscall) pair a phase performs; for every pair and every occurrence k (per thread, up to the observed count,
	// at most 4 / thorough 12) the child is killed ON ENTRY to that call (strace -P <file> -e inject=<syscall>:
	// signal=SIGKILL:when=k): file created but not sized, sized but not mapped, emptied but not unlinked, renamed
	// or not, manifest written but not synced, ... Unlike the syscall-index sweep these instants are named,
	// so the same window is hit on every run.
	type phase struct {
		name    string
		prepare func(dir string) int
		to      int
		mode    string
		kind    string
	}
	phasesT := []phase{
		{"first open + all stores + clean close", func(string) int { return 0 }, len(h), "close", ""},
		{"reopen of a directory killed after 5 stores, stores 5..8 + close", func(dir string) int { runChild(self, dir, 0, 5, "selfkill", "", 0); return 5 }, len(h), "close", ""},
		{"reopen of a cleanly closed directory, stores 4..8 + close", func(dir string) int { runChild(self, dir, 0, 4, "close", "", 0); return 4 }, len(h), "close", ""},
		{"first open + value-log-boundary stores + clean close", func(string) int { return 0 }, len(he), "close", "edge"},
	}
	maxK := r.Pick(4, 12)
	var targetsListed, targetKills int64
	for _, ph := range phasesT {
		ph := ph
		dry := newDir()
		from := ph.prepare(dry)
		pairs := dryRun(self, dry, from, ph.to, ph.mode, ph.kind, dry+".trace")
		os.RemoveAll(dry)
		if len(pairs) < 10 {
			// tracing went wrong - or the child cannot run this phase at all. The second is the code's fault
			// and is reported by the kill families above; only the first is a harness error.
			probe := newDir()
			pfrom := ph.prepare(probe)
			packs, _, _, praw := runChild(self, probe, pfrom, ph.to, ph.mode, ph.kind, 0)
			os.RemoveAll(probe)
			if packs == ph.to && strings.Contains(praw, "CLOSED") {
				ev.Broken("path-targeted kills: the dry run of %q lists only %d (file, syscall) pairs", ph.name, len(pairs))
			}
			r.Violation("child did not run as scripted (store or open failed before the kill)", praw, scenario{Name: "path-targeted kills", Steps: []string{ph.name + " (untraced probe run)"}, Acked: packs})
			continue
		}
		hh := history(ph.kind)
		for pr, cnt := range pairs {
			for k := 1; k <= cnt && k <= maxK; k++ {
				tg := target{pr[0], pr[1], k}
				atomic.AddInt64(&targetsListed, 1)
				jobs = append(jobs, func() {
					dir := newDir()
					defer os.RemoveAll(dir)
					from := ph.prepare(dir)
					acks, killed, phs, _ := runChildAt(self, dir, from, ph.to, ph.mode, ph.kind, 0, &tg)
					if !killed {
						return // this thread never made a k-th such call
					}
					atomic.AddInt64(&kills, 1)
					atomic.AddInt64(&targetKills, 1)
					at := "before open"
					if len(phs) > 0 {
						at = phs[len(phs)-1]
					}
					sc := scenario{Name: "SIGKILL on entry to " + tg.Syscall + " on " + generaliseFile(tg.File), Steps: []string{ph.name, fmt.Sprintf("SIGKILL on entry to call #%d (per thread) of %s on %s, phase %s, %d stores acknowledged", tg.K, tg.Syscall, tg.File, at, acks)}, Acked: acks}
					check(self, dir, ph.kind, acks, []int{acks}, sc)
					a2, _, _, raw2 := runChild(self, dir, acks, len(hh), "close", ph.kind, 0)
					sc.Steps = append(sc.Steps, "reopen, remaining stores, clean close")
					sc.Acked = a2
					if a2 != len(hh) || !strings.Contains(raw2, "CLOSED") {
						r.Violation("store does not reopen / accept writes after a kill (chained cycle)", raw2, sc)
						return
					}
					check(self, dir, ph.kind, a2, nil, sc)
				})
			}
		}
	}
	// ---- thorough: bulk phase (memtable flush, value log, compaction) with kills
	if r.Thorough() {
		hb := history("bulk")
		for n := 1; n <= 600; n += 2 {
			n := n
			jobs = append(jobs, func() {
				dir := newDir()
				defer os.RemoveAll(dir)
				acks, killed, _, _ := runChild(self, dir, 0, len(hb), "close", "bulk", n)
				if !killed {
					return
				}
				atomic.AddInt64(&kills, 1)
				sc := scenario{Name: "strace-injected SIGKILL in the bulk phase (70 x 1 MiB)", Steps: []string{fmt.Sprintf("SIGKILL at syscall #%d, %d stores acknowledged", n, acks)}, Acked: acks}
				check(self, dir, "bulk", acks, []int{acks}, sc)
			})
		}
	}
	// ---- family 3: torn images of a single store. One child runs the history and pauses after every
	// acknowledgement while the parent copies the directory image. For store k the region that differs
	// between image k-1 and image k is found per file; for every cut point p in that region two images are
	// built - only the first p bytes new (a copy that was killed half way), only the last bytes new - and
	// each is reopened by the verifier: k-1 stores acknowledged, store k in flight.
	tornImages := tornFamily(self, base, h, r.Pick(96, 1), &jobs)
	mc.ParallelFor(len(jobs), func(i int) { jobs[i]() })
	r.Set("torn_images", int(atomic.LoadInt64(tornImages)))
	r.Set("kill_points", int(kills))
	r.Set("stores_after_close", int(lateStores))
	r.Set("reopens_verified", int(opens))
	r.Set("distinct_last_ack", len(lastAck))
	r.Set("strace_kills_per_sweep", sweepKilled)
	r.Set("path_targeted_kill_points_listed", int(targetsListed))
	r.Set("path_targeted_kills_performed", int(targetKills))
	r.Set("evaluations", int(kills))
	r.Set("distinct_nontrivial", int(kills))
	r.Sample(scenario{Name: "kill at store boundary", Steps: []string{"stores 0..5 then SIGKILL", "reopen, stores 5..7 then SIGKILL", "reopen, stores 7..8 then SIGKILL"}, Acked: 8})
	r.Sample(scenario{Name: "strace-injected SIGKILL", Steps: []string{sweeps[2].name, "SIGKILL at write-path syscall #17 (per thread)"}})
	r.Exhaustive = false
	r.Set("exhaustive_note", "store-boundary kills and their chains are complete for the history; syscall-indexed kills are complete over indices 1..limit per thread (strace counts per thread and badger has background goroutines, so an index is not the same instruction on every run)")
	r.Set("rule", "one kill point = one (scenario, kill position) pair followed by a verified reopen; every kill point is distinct and non-trivial (a real SIGKILL of a real process using the real db.Open/StoreSignedVAA/Close)")
	r.Assume("a SIGKILL loses nothing the process already wrote to the page cache (process crash, not power loss: that is what the property states)")
	r.Assume("torn images: a store's bytes are assumed to land in contiguous runs (prefix / suffix of the changed region per file); arbitrary subsets of changed bytes are not enumerated")
	r.Finish()
}
