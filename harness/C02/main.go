// C02: a VAA is published exactly when the node saw the message and quorum signed.
// (A) explicit-state search over event histories of the real Processor with a reference model of the
// publish point checked on every transition; (B) permutation mode: every ordering (and interleaving
// with invalid traffic, duplicates, a set update) of fixed event multisets, plus a confluence check
// on the final states; (C) negative half: histories without a local observation never publish.
package main

import (
	"encoding/json"
	"fmt"
	"os"
	"sort"
	"strings"
	"time"

	"github.com/alephium/wormhole-fork/node/pkg/vaa"
	"github.com/alephium/wormhole-fork/node/verifh/ev"
	"github.com/alephium/wormhole-fork/node/verifh/proch"
)

const outsider = 9999

func emitter() (a vaa.Address) { a[31] = 0x42; return }

func big(n int) []byte {
	b := make([]byte, n)
	for i := range b {
		b[i] = byte(i + 1)
	}
	return b
}

func msgs() []proch.Msg {
	e := emitter()
	return []proch.Msg{
		{Seq: 5, Payload: []byte{1, 2, 3}, Emitter: e, Chain: 2, Target: 255, CL: 1, Nonce: 9},
		{Seq: 5, TSOff: 60, Payload: []byte{1, 2, 3}, Emitter: e, Chain: 2, Target: 255, CL: 1, Nonce: 9},
		{Seq: 7, Payload: big(1500), Emitter: e, Chain: 255, Target: 0, CL: 0},
		{Seq: 1, Payload: []byte{9}, Emitter: proch.GovAddr, Chain: proch.GovChain, Target: 0, CL: 32}, // governance emitter on chain: must be dropped
		{Seq: 2, Payload: []byte{0, 0, 0, 1}, Emitter: proch.GovAddr, Chain: proch.GovChain, Target: 0, CL: 32}, // injected by the operator
		{Seq: 5, TSOff: 12, Payload: []byte{1, 2, 3}, Emitter: e, Chain: 2, Target: 255, CL: 1, Nonce: 9}, // 5: same id as 0, re-included one block later (inside the 30 s settlement window): another body, another digest
		{Seq: 5, TSOff: 30, Payload: []byte{1, 2, 3}, Emitter: e, Chain: 2, Target: 255, CL: 1, Nonce: 9}, // 6: exactly at the window's edge
	}
}

func rng(a, b int) []int {
	var o []int
	for i := a; i < b; i++ {
		o = append(o, i)
	}
	return o
}

type job struct {
	Name   string
	C      proch.Config
	Prefix []proch.Event
	Depth  int
	Menu   proch.Enabled
	Final  func(x *proch.Explorer) func(n *proch.Node, m *proch.Model, hist []proch.Event)
	Weight int
}

// ---- (A) free search
func freeJobs(r *ev.Run) []job {
	var out []job
	for n := 1; n <= r.Pick(3, 4); n++ {
		for own := 0; own <= n; own++ {
			ownKey := own
			if own == n {
				ownKey = 500
			}
			sets := [][]int{rng(0, n), rng(1, n+1)}
			obs := append(rng(0, n+1), outsider)
			msgIdx := []int{0, 1}
			if n == 1 || (n == 2 && r.Thorough()) {
				msgIdx = []int{0, 1, 2, 5}
			}
			if n == 1 && r.Thorough() {
				msgIdx = []int{0, 1, 2, 5, 6}
			}
			depth := r.Pick(6, 7)
			if n >= 3 {
				depth = r.Pick(5, 7)
			}
			c := proch.Config{Name: fmt.Sprintf("free-n%d-own%d", n, own), Sets: sets, OwnKey: ownKey, Msgs: msgs()}
			menu := func(nd *proch.Node, m *proch.Model, hist []proch.Event) []proch.Event {
				var evs []proch.Event
				for si := range sets { // any set at any time, also an older one after a newer one (two chain watchers feed the channel)
					if si != m.Cur {
						evs = append(evs, proch.Event{Kind: "set", Set: si})
					}
				}
				if len(nd.Pending) < 2 {
					for _, mi := range msgIdx {
						evs = append(evs, proch.Event{Kind: "msg", M: mi})
					}
					evs = append(evs, proch.Event{Kind: "msg", M: 3})
					if m.Cur >= 0 {
						evs = append(evs, proch.Event{Kind: "inject", M: 4})
					}
				}
				for i := range nd.Pending {
					evs = append(evs, proch.Event{Kind: "lb", LB: i})
				}
				for _, g := range obs {
					for _, d := range append(append([]int{}, msgIdx...), 4) {
						evs = append(evs, proch.Event{Kind: "obs", G: g, D: d})
					}
				}
				evs = append(evs,
					proch.Event{Kind: "obs", G: 0, D: 0, ObsKind: 1},
					proch.Event{Kind: "obs", G: 0, D: 0, ObsKind: 2, Claim: n / 2},
					proch.Event{Kind: "obs", G: outsider, D: 0, ObsKind: 2, Claim: 0},
					proch.Event{Kind: "obs", G: 0, D: 0, ObsKind: 3},
					// a member's valid signature with the recovery id written as 27/28: not a signature a VAA can carry, so it does not count
					proch.Event{Kind: "obs", G: n - 1, D: 0, ObsKind: len(proch.ObsKinds) - 1},
					proch.Event{Kind: "obs", G: 0, D: 3}, // observation of the governance-emitter message by a member
					proch.Event{Kind: "in", M: 0, InVar: 0, InSet: 0})
				return evs
			}
			out = append(out, job{Name: c.Name, C: c, Depth: depth, Menu: menu, Weight: n * n * depth})
		}
	}
	// rotations between sets of different sizes (the threshold is that of the set in force at the local observation)
	for _, p := range [][2]int{{4, 1}, {4, 2}, {2, 4}, {1, 3}, {3, 2}, {7, 4}, {4, 7}} {
		a, b := p[0], p[1]
		sets := [][]int{rng(0, a), rng(0, b)}
		obs := append(rng(0, 5), outsider)
		if a+b > 10 {
			obs = []int{1, 2, 3, 6, outsider}
		}
		c := proch.Config{Name: fmt.Sprintf("free-resize-%d-to-%d", a, b), Sets: sets, OwnKey: 0, Msgs: msgs()}
		menu := func(nd *proch.Node, m *proch.Model, hist []proch.Event) []proch.Event {
			var evs []proch.Event
			for si := range sets {
				if si != m.Cur {
					evs = append(evs, proch.Event{Kind: "set", Set: si})
				}
			}
			if len(nd.Pending) < 2 {
				evs = append(evs, proch.Event{Kind: "msg", M: 0})
			}
			for i := range nd.Pending {
				evs = append(evs, proch.Event{Kind: "lb", LB: i})
			}
			for _, g := range obs {
				evs = append(evs, proch.Event{Kind: "obs", G: g, D: 0})
			}
			return evs
		}
		out = append(out, job{Name: c.Name, C: c, Depth: 7, Menu: menu, Weight: 40})
	}
	return out
}

// ---- (B) permutation mode
func permJobs(r *ev.Run) []job {
	var out []job
	add := func(name string, n, ownKey int, multiset []proch.Event, prefix []proch.Event, confluent bool) {
		sets := [][]int{rng(0, n), rng(1, n+1)}
		c := proch.Config{Name: name, Sets: sets, OwnKey: ownKey, Msgs: msgs()}
		for _, e := range multiset {
			if e.Kind == "dbclose" {
				c.PrivateDB = true
			}
		}
		ms := multiset
		menu := func(nd *proch.Node, m *proch.Model, hist []proch.Event) []proch.Event {
			used := make([]bool, len(ms))
			for _, h := range hist[len(prefix):] {
				if h.Kind == "lb" {
					continue
				}
				for i, e := range ms {
					if !used[i] && e == h {
						used[i] = true
						break
					}
				}
			}
			var evs []proch.Event
			seen := map[proch.Event]bool{}
			for i, e := range ms {
				if !used[i] && !seen[e] {
					seen[e] = true
					evs = append(evs, e)
				}
			}
			for i := range nd.Pending {
				evs = append(evs, proch.Event{Kind: "lb", LB: i})
			}
			return evs
		}
		final := func(x *proch.Explorer) func(nd *proch.Node, m *proch.Model, hist []proch.Event) {
			outcomes := map[string][]proch.Event{}
			return func(nd *proch.Node, m *proch.Model, hist []proch.Event) {
				if len(hist)-len(prefix) < len(ms) || len(nd.Pending) > 0 {
					return // not a complete ordering
				}
				nlb := 0
				for _, h := range hist {
					if h.Kind == "lb" {
						nlb++
					}
				}
				if len(hist)-len(prefix)-nlb != len(ms) {
					return
				}
				x.R.Add("complete_orderings_final_states", 1)
				if !confluent || ownKey >= n {
					// a node that is not a member of the set never delivers a counted own signature: the
					// statement's "its own included" does not apply, so only exactly-when is judged there
					return
				}
				// summary: which digests were published and which ids are stored
				var pub []string
				for k, en := range m.Ent {
					if en.Published > 0 {
						pub = append(pub, k[:8])
					}
				}
				sort.Strings(pub)
				var ids []string
				for k := range nd.Store() {
					ids = append(ids, k)
				}
				sort.Strings(ids)
				sum := strings.Join(pub, ",") + "|" + strings.Join(ids, ",")
				if _, ok := outcomes[sum]; !ok {
					outcomes[sum] = hist
					if len(outcomes) > 1 {
						var pretty []string
						for _, e := range hist {
							pretty = append(pretty, e.String())
						}
						x.R.Violation("C02 orderings of the same event multiset end in different published/stored sets", sum+" history: "+strings.Join(pretty, " "), proch.Replay{Config: c, History: hist, Pretty: pretty, Oracle: "C02-confluence"})
					}
				}
			}
		}
		out = append(out, job{Name: name, C: c, Prefix: prefix, Depth: len(ms) + 2, Menu: menu, Final: final, Weight: len(ms) * len(ms) * len(ms)})
	}
	set0 := proch.Event{Kind: "set", Set: 0}
	maxN := r.Pick(4, 5)
	for n := 1; n <= maxN; n++ {
		q := proch.Quorum(n)
		for _, ownKey := range []int{0, n - 1, 500} {
			if n == 1 && ownKey == n-1 {
				continue
			}
			others := []int{}
			for g := 0; g < n; g++ {
				if g != ownKey {
					others = append(others, g)
				}
			}
			for mask := 0; mask < 1<<len(others); mask++ {
				var S []int
				for i, g := range others {
					if mask&(1<<i) != 0 {
						S = append(S, g)
					}
				}
				base := []proch.Event{{Kind: "msg", M: 0}}
				for _, g := range S {
					base = append(base, proch.Event{Kind: "obs", G: g, D: 0})
				}
				name := fmt.Sprintf("perm-n%d-own%d-S%v", n, ownKey, S)
				add(name, n, ownKey, base, []proch.Event{set0}, true)
				near := len(S)+1 >= q-1 && len(S)+1 <= q+1
				if near && len(S) <= 3 {
					// invalid traffic, duplicates, re-observation
					extra := append(append([]proch.Event{}, base...),
						proch.Event{Kind: "obs", G: 0, D: 0, ObsKind: 1}, proch.Event{Kind: "obs", G: outsider, D: 0})
					add(name+"+invalid", n, ownKey, extra, []proch.Event{set0}, true)
					if len(S) > 0 {
						dup := append(append([]proch.Event{}, base...), proch.Event{Kind: "obs", G: S[0], D: 0}, proch.Event{Kind: "msg", M: 0})
						add(name+"+dup", n, ownKey, dup, []proch.Event{set0}, true)
					}
					// the local observation happens during a burst of gossip: the node's inbound observation queue
					// is full at that moment; its own signature must still reach its aggregation once there is room
					burst := append([]proch.Event{{Kind: "msg", M: 0, FullO: true}}, base[1:]...)
					add(name+"+burst", n, ownKey, burst, []proch.Event{set0}, true)
					// the set goes forward and back again somewhere in the ordering, with a re-observation
					back := append(append([]proch.Event{}, base...), proch.Event{Kind: "set", Set: 1}, proch.Event{Kind: "set", Set: 0}, proch.Event{Kind: "msg", M: 0}, proch.Event{Kind: "obs", G: n, D: 0})
					if len(back) <= 7 {
						add(name+"+set-forward-and-back", n, ownKey, back, []proch.Event{set0}, false)
					}
					// the store starts failing somewhere in the ordering (every later write and lookup returns the
					// store's error): the VAA must still be broadcast at the publish point, once
					if n <= 3 {
						sf := append(append([]proch.Event{}, base...), proch.Event{Kind: "dbclose"})
						add(name+"+storefails", n, ownKey, sf, []proch.Event{set0}, false)
						if len(S) > 0 {
							sfd := append(append([]proch.Event{}, sf...), proch.Event{Kind: "obs", G: S[0], D: 0})
							add(name+"+storefails+dup", n, ownKey, sfd, []proch.Event{set0}, false)
						}
					}
					// a set update somewhere in the ordering (not confluent by design; exactly-when is still checked)
					su := append(append([]proch.Event{}, base...), proch.Event{Kind: "set", Set: 1}, proch.Event{Kind: "obs", G: n, D: 0})
					add(name+"+setupdate", n, ownKey, su, []proch.Event{set0}, false)
				}
			}
		}
	}
	// large sets: quorum-3 signers delivered in a prefix, all orderings of the rest
	for _, n := range []int{13, 19} {
		q := proch.Quorum(n)
		for _, ownKey := range []int{0, 500} {
			for _, total := range []int{q - 1, q, q + 1} { // signers including own (if member)
				var prefix = []proch.Event{set0}
				var rest []proch.Event
				k := 0
				for g := 1; k < total-1 || (ownKey == 500 && k < total); g++ {
					e := proch.Event{Kind: "obs", G: g, D: 0}
					if k < total-4 {
						prefix = append(prefix, e)
					} else {
						rest = append(rest, e)
					}
					k++
				}
				rest = append(rest, proch.Event{Kind: "msg", M: 0}, proch.Event{Kind: "obs", G: outsider, D: 0})
				add(fmt.Sprintf("perm-n%d-own%d-signers%d", n, ownKey, total), n, ownKey, rest, prefix, true)
			}
		}
	}
	return out
}

// ---- (C) negative half: no local observation, nothing is ever published (the oracle flags any emission)
func negJobs(r *ev.Run) []job {
	var out []job
	for _, n := range []int{1, 3} {
		sets := [][]int{rng(0, n), rng(1, n+1)}
		c := proch.Config{Name: fmt.Sprintf("neg-n%d", n), Sets: sets, OwnKey: 0, Msgs: msgs()}
		menu := func(nd *proch.Node, m *proch.Model, hist []proch.Event) []proch.Event {
			var evs []proch.Event
			if m.Cur+1 < len(sets) {
				evs = append(evs, proch.Event{Kind: "set", Set: m.Cur + 1})
			}
			for _, g := range append(rng(0, n+1), outsider) {
				for _, d := range []int{0, 2, -1} {
					evs = append(evs, proch.Event{Kind: "obs", G: g, D: d})
				}
			}
			evs = append(evs, proch.Event{Kind: "msg", M: 3}) // governance-emitter message: dropped
			for v := range proch.InVariants {
				evs = append(evs, proch.Event{Kind: "in", M: 0, InVar: v, InSet: 0})
			}
			return evs
		}
		out = append(out, job{Name: c.Name, C: c, Depth: r.Pick(6, 7), Menu: menu, Weight: 300})
	}
	return out
}

// ---- (D) the node signs through the Cloud-KMS hand-over (DER signature -> parseSignature -> appendV, the real
// functions): messages whose signature by the node's key has an r or an s with a leading zero byte (found by
// search) and a plain control; free histories for a 1-member and a 2-member set.
func kmsJobs(r *ev.Run) []job {
	e := emitter()
	mk := func(seq uint64) proch.Msg { return proch.Msg{Seq: seq, Payload: []byte{1, 2, 3}, Emitter: e, Chain: 2, Target: 255, CL: 1, Nonce: 9} }
	shortR, shortS, plain := proch.ShortScalarSeqs(0, mk, 1)
	if len(shortR) < 1 || len(shortS) < 1 {
		ev.Broken("kms path: no short-scalar signatures found")
	}
	ms := []proch.Msg{mk(shortR[0]), mk(shortS[0]), mk(plain[0])}
	var out []job
	for n := 1; n <= 2; n++ {
		n := n
		sets := [][]int{rng(0, n)}
		c := proch.Config{Name: fmt.Sprintf("kms-path-n%d", n), Sets: sets, OwnKey: 0, Msgs: ms, KMSPath: true}
		menu := func(nd *proch.Node, m *proch.Model, hist []proch.Event) []proch.Event {
			var evs []proch.Event
			if m.Cur < 0 {
				evs = append(evs, proch.Event{Kind: "set", Set: 0})
			}
			if len(nd.Pending) < 2 {
				for mi := range ms {
					evs = append(evs, proch.Event{Kind: "msg", M: mi})
				}
			}
			for i := range nd.Pending {
				evs = append(evs, proch.Event{Kind: "lb", LB: i})
			}
			for g := 1; g < n; g++ {
				for mi := range ms {
					evs = append(evs, proch.Event{Kind: "obs", G: g, D: mi})
				}
			}
			return evs
		}
		out = append(out, job{Name: c.Name, C: c, Depth: 5, Menu: menu, Weight: 1})
	}
	return out
}

func main() {
	r := ev.Start("C02", "model_checking")
	if len(os.Args) > 2 && os.Args[1] == "--replay" {
		replay(r, os.Args[2])
		return
	}
	jobs := append(append(append(freeJobs(r), permJobs(r)...), negJobs(r)...), kmsJobs(r)...)
	sort.SliceStable(jobs, func(i, j int) bool { return jobs[i].Weight > jobs[j].Weight })
	si, sn, worker := ev.Shard()
	if !worker {
		r.Set("jobs", len(jobs))
		r.Fork(0, []string{"GOMAXPROCS=2"}, nil)
		r.Set("rule", "state = canonical key of (aggregation entries, store, pending loopbacks, reference-model state[, consumed part of the multiset]); the reference model (maps: accepted signers per digest, set snapshot at last local observation, published flag) predicts the publish point and is compared with the real outputs on every transition")
		r.Assume("handler invocations are atomic transitions; confluence is judged only for multisets without a set update; operator injection is explored only after a guardian set is known")
		r.Finish()
		return
	}
	w := proch.NewWorld()
	for i, j := range jobs {
		if i%sn != si {
			continue
		}
		if only := os.Getenv("VERIF_ONLY"); only != "" && !strings.HasPrefix(j.Name, only) {
			continue
		}
		j := j
		t0 := time.Now()
		x := &proch.Explorer{R: r, W: w, C: &j.C, Oracles: map[string]bool{"C02": true}}
		if i == si {
			x.SelfTest([]proch.Event{{Kind: "set", Set: 0}, {Kind: "msg", M: 0}, {Kind: "lb", LB: 0}})
		}
		var fin func(n *proch.Node, m *proch.Model, hist []proch.Event)
		if j.Final != nil {
			fin = j.Final(x)
		}
		x.BFSFrom(j.Prefix, j.Depth, j.Menu, 500000, fin)
		r.Add("states", x.States)
		r.Add("transitions", x.Transitions)
		r.Add("traces_validated_against_impl", x.Builds)
		r.Add("publishes_checked", x.Publishes)
		if strings.HasPrefix(j.Name, "perm") {
			r.Add("permutation_scenarios", 1)
		}
		if i < 2 || strings.HasSuffix(j.Name, "+setupdate") {
			r.Sample(map[string]interface{}{"job": j.Name, "states": x.States, "transitions": x.Transitions})
		}
		if os.Getenv("VERIF_VERBOSE") != "" {
			fmt.Fprintf(os.Stderr, "%s depth=%d states=%d transitions=%d builds=%d %.1fs\n", j.Name, j.Depth, x.States, x.Transitions, x.Builds, time.Since(t0).Seconds())
		}
	}
	r.Finish()
}

func replay(r *ev.Run, path string) {
	b, err := os.ReadFile(path)
	if err != nil {
		ev.Broken("%v", err)
	}
	var art struct {
		Replay proch.Replay `json:"replay"`
	}
	if err := json.Unmarshal(b, &art); err != nil {
		ev.Broken("%v", err)
	}
	w := proch.NewWorld()
	x := &proch.Explorer{R: r, W: w, C: &art.Replay.Config, Oracles: map[string]bool{"C02": true}}
	x.Run(art.Replay.History).Close()
	fmt.Printf("replayed %v: %d violations\n", art.Replay.Pretty, r.Violations())
	if r.Violations() > 0 {
		os.Exit(1)
	}
	os.Exit(0)
}
