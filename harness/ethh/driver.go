package ethh

import (
	"context"
	"fmt"
	"net"
	"strings"
	"sync"
	"time"

	"github.com/alephium/wormhole-fork/node/pkg/common"
	"github.com/alephium/wormhole-fork/node/pkg/ethereum"
	gossipv1 "github.com/alephium/wormhole-fork/node/pkg/proto/gossip/v1"
	"github.com/alephium/wormhole-fork/node/pkg/supervisor"
	"github.com/alephium/wormhole-fork/node/pkg/vaa"
	"github.com/alephium/wormhole-fork/node/verifh/ev"
	"github.com/alephium/wormhole-fork/node/verifh/quiesce"
	"github.com/alephium/wormhole-fork/node/verifh/vtime"
	ethcommon "github.com/ethereum/go-ethereum/common"
	"github.com/ethereum/go-ethereum/rpc"
	"go.uber.org/zap"
	"go.uber.org/zap/zapcore"
)

type Driver struct {
	C       *Chain
	MsgC    chan *common.MessagePublication
	SetC    chan *common.GuardianSet
	ReqC    chan *gossipv1.ObservationRequest
	cancel  context.CancelFunc
	sup     *supervisor.VerifSupervisor
	mu      sync.Mutex
	Runs    int
	Exits   []string
	running bool
	conns   []net.Conn
	srvs    []*rpc.Server
	ChainID vaa.ChainID
	// log gate: a log call is a point at which a goroutine of the watcher can be delayed (its sink blocks, the
	// goroutine is descheduled). LogSeen lists the messages of this run in order; an armed gate parks the goroutine
	// that writes the (skip+1)-th entry containing gateSub inside the log call until ReleaseLog.
	LogSeen  []string
	gateSub  string
	gateSkip int
	gateHeld []chan struct{}
	// OnPark is called by the goroutine that is about to be parked in a log call
	OnPark func()
}

type gateCore struct{ d *Driver }

func (g gateCore) Enabled(l zapcore.Level) bool          { return l >= zapcore.InfoLevel }
func (g gateCore) With([]zapcore.Field) zapcore.Core      { return g }
func (g gateCore) Sync() error                            { return nil }
func (g gateCore) Check(e zapcore.Entry, ce *zapcore.CheckedEntry) *zapcore.CheckedEntry {
	if g.Enabled(e.Level) {
		return ce.AddCore(e, g)
	}
	return ce
}
func (g gateCore) Write(e zapcore.Entry, _ []zapcore.Field) error {
	d := g.d
	d.mu.Lock()
	d.LogSeen = append(d.LogSeen, e.Message)
	var ch chan struct{}
	if d.gateSub != "" && strings.Contains(e.Message, d.gateSub) {
		if d.gateSkip > 0 {
			d.gateSkip--
		} else {
			ch = make(chan struct{})
			d.gateHeld = append(d.gateHeld, ch)
			d.gateSub = ""
		}
	}
	onPark := d.OnPark
	d.mu.Unlock()
	if ch != nil {
		if onPark != nil {
			onPark()
		}
		<-ch
	}
	return nil
}

// HoldLog arms the gate; ReleaseLog lets every parked log call return. LogHeld: goroutines currently parked.
func (d *Driver) HoldLog(sub string, skip int) {
	d.mu.Lock()
	d.gateSub, d.gateSkip = sub, skip
	d.mu.Unlock()
}
func (d *Driver) ReleaseLog() {
	d.mu.Lock()
	held := d.gateHeld
	d.gateHeld, d.gateSub = nil, ""
	d.mu.Unlock()
	for _, ch := range held {
		close(ch)
	}
}
// LogSince returns the messages logged after the first n.
func (d *Driver) LogSince(n int) []string {
	d.mu.Lock()
	defer d.mu.Unlock()
	if n > len(d.LogSeen) {
		n = len(d.LogSeen)
	}
	return append([]string{}, d.LogSeen[n:]...)
}
func (d *Driver) LogHeld() int {
	d.mu.Lock()
	defer d.mu.Unlock()
	return len(d.gateHeld)
}

// NewDriver starts the real watcher. finalized=true runs it as chain Ethereum outside dev mode, which
// reads blocks at the "finalized" tag; otherwise as BSC (reads "latest").
func NewDriver(c *Chain, waitForConfirmations, finalized bool) *Driver {
	vtime.ResetClock(time.Unix(1_700_000_000, 0))
	d := &Driver{C: c, MsgC: make(chan *common.MessagePublication, 256), SetC: make(chan *common.GuardianSet, 64), ReqC: make(chan *gossipv1.ObservationRequest, 1)}
	rpc.VerifDialHook = func(endpoint string) (net.Conn, error) {
		conn, srv := c.Serve()
		d.mu.Lock()
		d.conns = append(d.conns, conn)
		d.srvs = append(d.srvs, srv)
		d.mu.Unlock()
		return conn, nil
	}
	d.ChainID = vaa.ChainIDBSC
	if finalized {
		d.ChainID = vaa.ChainIDEthereum
	}
	poll := uint(1000)
	w := ethereum.NewEthWatcher("/verif/sim.ipc", Core, "sim", "sim", d.ChainID, d.MsgC, d.SetC, d.ReqC, false, &poll, waitForConfirmations)
	ctx, cancel := context.WithCancel(context.Background())
	d.cancel = cancel
	d.sup = supervisor.New(ctx, zap.New(gateCore{d}), func(ctx context.Context) error {
		if err := supervisor.Run(ctx, "ethwatch", func(ctx context.Context) error {
			d.mu.Lock()
			d.Runs++
			d.running = true
			d.mu.Unlock()
			err := w.Run(ctx)
			d.mu.Lock()
			d.running = false
			d.Exits = append(d.Exits, fmt.Sprint(err))
			d.mu.Unlock()
			return err
		}); err != nil {
			return err
		}
		supervisor.Signal(ctx, supervisor.SignalHealthy)
		<-ctx.Done()
		return ctx.Err()
	})
	d.Quiesce()
	return d
}

func ignore(g quiesce.Goroutine) bool {
	return !(g.Has("pkg/ethereum.") || g.Has("pkg/supervisor.") || g.Has("verifh/ethh.") || g.Has("verifh/vtime.") || g.Has("go-ethereum/rpc.") || g.Has("go-ethereum/event.") || g.Has("accounts/abi/bind"))
}

func (d *Driver) Quiesce() {
	if _, ok := quiesce.Wait(quiesce.Options{Ignore: ignore, Activity: func() uint64 { return vtime.Activity() + d.C.Activity() }, MaxSpins: 400000}); !ok {
		ev.Broken("evm watcher does not become quiescent")
	}
}

func (d *Driver) Running() bool {
	d.mu.Lock()
	defer d.mu.Unlock()
	return d.running
}

// GuardianSetTick fires the watcher's 15 s guardian-set ticker (one fetch round).
func (d *Driver) GuardianSetTick() bool {
	n := 0
	for _, w := range vtime.Find("ticker", "ethereum") {
		if w.Period == 15*time.Second {
			w.Fire()
			n++
		}
	}
	d.Quiesce()
	return n > 0
}

// Poll fires the block poller's timer (one polling round).
func (d *Driver) Poll() bool {
	var ws []*vtime.Waiter
	for _, w := range vtime.Find("timer", "BlockPollConnector") {
		if !strings.HasPrefix(w.Label, "ctx:") { // request deadlines are not the poll timer
			ws = append(ws, w)
		}
	}
	if len(ws) == 0 {
		return false
	}
	for _, w := range ws {
		w.Fire()
	}
	d.Quiesce()
	return true
}

func (d *Driver) Reobs(tx ethcommon.Hash) bool {
	select {
	case d.ReqC <- &gossipv1.ObservationRequest{ChainId: uint32(d.ChainID), TxHash: tx.Bytes()}:
	default:
		return false
	}
	d.Quiesce()
	return true
}

func (d *Driver) ReleaseSleepers() {
	for _, w := range vtime.Find("sleep", "") {
		w.Fire()
	}
	d.Quiesce()
}

func (d *Driver) Restart() {
	for i := 0; i < 6 && !d.Running(); i++ {
		for _, w := range vtime.Find("ticker", "processor") {
			w.Fire()
		}
		d.Quiesce()
		d.ReleaseSleepers()
	}
}

func (d *Driver) Take() []*common.MessagePublication {
	var out []*common.MessagePublication
	for len(d.MsgC) > 0 {
		out = append(out, <-d.MsgC)
	}
	return out
}

func (d *Driver) Close() {
	d.ReleaseLog()
	d.C.ReleaseAll()
	d.cancel()
	for i := 0; i < 50; i++ {
		d.Quiesce()
		any := false
		for _, w := range vtime.Find("sleep", "") {
			w.Fire()
			any = true
		}
		if d.sup.VerifDrain() > 0 {
			any = true
		}
		if !any {
			break
		}
	}
	d.mu.Lock()
	for _, c := range d.conns {
		c.Close()
	}
	for _, s := range d.srvs {
		s.Stop()
	}
	d.mu.Unlock()
	d.Quiesce()
}
