// Package ethh binds the real EVM watcher (NewEthWatcher(...).Run under a real supervisor: real
// connector, block poller, ABI decoding, log subscription, by_transaction.go) to a simulated chain
// served by go-ethereum's own rpc.Server over an in-memory net.Pipe (a dial hook added to
// go-ethereum's rpc/ipc_unix.go through the build overlay hands out one end of the pipe).
package ethh

import (
	"context"
	"fmt"
	"math/big"
	"net"
	"strings"
	"sync"

	ethabi "github.com/alephium/wormhole-fork/node/pkg/ethereum/abi"
	"github.com/ethereum/go-ethereum/accounts/abi"
	"github.com/ethereum/go-ethereum/common"
	"github.com/ethereum/go-ethereum/common/hexutil"
	"github.com/ethereum/go-ethereum/core/types"
	"github.com/ethereum/go-ethereum/eth/filters"
	"github.com/ethereum/go-ethereum/rpc"
)

var (
	Core  = common.HexToAddress("0x00000000000000000000000000000000000c04e0")
	Other = common.HexToAddress("0x0000000000000000000000000000000000000bad")
	ABI   *abi.ABI
)

func init() {
	a, err := abi.JSON(strings.NewReader(ethabi.AbiABI))
	if err != nil {
		panic(err)
	}
	ABI = &a
}

type Blk struct {
	Number uint64
	Hash   common.Hash
	Time   uint64
}

type Chain struct {
	mu        sync.Mutex
	Head      uint64
	Finalized uint64
	ByNumber  map[uint64]*Blk
	ByHash    map[common.Hash]*Blk
	Receipts  map[common.Hash]*types.Receipt
	removedLogs map[common.Hash][]*types.Log // logs of the block a transaction has left, not yet announced as removed
	MaxServed uint64 // highest head number ever served to the watcher
	MaxServedFinal uint64 // highest number ever served for the finalized / safe tag
	FailNext  map[string]int
	Reqs      []string
	nreq      uint64
	subs      []*logSub
	GSIndex   uint32 // current guardian set index on chain
	Hold      map[string]chan struct{}
	HoldSkip  map[string]int // let this many calls through before holding
	parked    int
	// LastServed: for every transaction the last receipt answer given to the watcher and the highest
	// head that had been served to it BEFORE that answer.
	LastServed map[common.Hash]Served
}

type Served struct {
	Receipt    *types.Receipt
	HeadBefore uint64
	FinalBefore uint64 // highest FINALIZED head served before this answer
}

type logSub struct {
	notifier *rpc.Notifier
	sub      *rpc.Subscription
	crit     filters.FilterCriteria
}

// GuardianKeys: the keys of the guardian set with index i on the simulated chain (three keys, different for every index).
func GuardianKeys(i uint32) []common.Address {
	var out []common.Address
	for k := 0; k < 3; k++ {
		var a common.Address
		a[0], a[1], a[19] = 0x11, byte(i), byte(k+1)
		out = append(out, a)
	}
	return out
}

// Rotate installs the next guardian set on the chain.
func (c *Chain) Rotate() uint32 {
	c.mu.Lock()
	defer c.mu.Unlock()
	c.GSIndex++
	return c.GSIndex
}

func NewChain(head uint64) *Chain {
	c := &Chain{ByNumber: map[uint64]*Blk{}, ByHash: map[common.Hash]*Blk{}, Receipts: map[common.Hash]*types.Receipt{}, removedLogs: map[common.Hash][]*types.Log{}, FailNext: map[string]int{}, Hold: map[string]chan struct{}{}, HoldSkip: map[string]int{}, LastServed: map[common.Hash]Served{}}
	for n := uint64(0); n <= head; n++ {
		c.addBlock(n, 0)
	}
	c.Head, c.Finalized = head, head
	return c
}

func BlockHash(n uint64, fork int) common.Hash {
	return common.BigToHash(new(big.Int).SetUint64(0xb10c0000 + n*16 + uint64(fork)))
}

func (c *Chain) addBlock(n uint64, fork int) *Blk {
	b := &Blk{Number: n, Hash: BlockHash(n, fork), Time: 1_700_000_000 + n*12 + uint64(fork)}
	c.ByNumber[n] = b
	c.ByHash[b.Hash] = b
	return b
}

func (c *Chain) Activity() uint64 {
	c.mu.Lock()
	defer c.mu.Unlock()
	return c.nreq
}

func (c *Chain) BeginStep() {
	c.mu.Lock()
	c.Reqs = nil
	c.mu.Unlock()
}

func (c *Chain) StepRequests() []string {
	c.mu.Lock()
	defer c.mu.Unlock()
	return append([]string{}, c.Reqs...)
}

// enter is called at the start of every RPC method.
func (c *Chain) enter(method string) error {
	c.mu.Lock()
	c.nreq++
	c.Reqs = append(c.Reqs, method)
	hold := c.Hold[method]
	if hold != nil && c.HoldSkip[method] > 0 {
		c.HoldSkip[method]--
		hold = nil
	}
	c.mu.Unlock()
	if hold != nil {
		c.mu.Lock()
		c.parked++
		c.mu.Unlock()
		<-hold
		c.mu.Lock()
		c.parked--
		c.mu.Unlock()
	}
	c.mu.Lock()
	defer c.mu.Unlock()
	if c.FailNext[method] > 0 {
		c.FailNext[method]--
		return fmt.Errorf("injected fault in %s", method)
	}
	return nil
}

// ---- RPC service "eth"
type Service struct{ C *Chain }

func (s *Service) GetBlockByNumber(ctx context.Context, number string, full bool) (map[string]interface{}, error) {
	if err := s.C.enter("eth_getBlockByNumber"); err != nil {
		return nil, err
	}
	s.C.mu.Lock()
	defer s.C.mu.Unlock()
	var n uint64
	switch number {
	case "latest":
		n = s.C.Head
	case "finalized", "safe":
		n = s.C.Finalized
	default:
		v, err := hexutil.DecodeUint64(number)
		if err != nil {
			return nil, err
		}
		n = v
	}
	b := s.C.ByNumber[n]
	if b == nil {
		return nil, nil
	}
	if number == "latest" || number == "finalized" || number == "safe" {
		if n > s.C.MaxServed {
			s.C.MaxServed = n
		}
		if number != "latest" && n > s.C.MaxServedFinal {
			s.C.MaxServedFinal = n
		}
	}
	return map[string]interface{}{"number": hexutil.EncodeUint64(b.Number), "hash": b.Hash}, nil
}

func (s *Service) GetBlockByHash(ctx context.Context, hash common.Hash, full bool) (*types.Header, error) {
	if err := s.C.enter("eth_getBlockByHash"); err != nil {
		return nil, err
	}
	s.C.mu.Lock()
	defer s.C.mu.Unlock()
	b := s.C.ByHash[hash]
	if b == nil {
		return nil, nil
	}
	return &types.Header{Number: new(big.Int).SetUint64(b.Number), Time: b.Time, Difficulty: big.NewInt(1), Extra: []byte{}}, nil
}

func (s *Service) GetTransactionReceipt(ctx context.Context, hash common.Hash) (*types.Receipt, error) {
	if err := s.C.enter("eth_getTransactionReceipt"); err != nil {
		return nil, err
	}
	s.C.mu.Lock()
	defer s.C.mu.Unlock()
	rc := s.C.Receipts[hash]
	s.C.LastServed[hash] = Served{rc, s.C.MaxServed, s.C.MaxServedFinal}
	return rc, nil
}

func (s *Service) ChainId(ctx context.Context) (*hexutil.Big, error) {
	return (*hexutil.Big)(big.NewInt(1337)), nil
}

type callArgs struct {
	To   *common.Address `json:"to"`
	Data *hexutil.Bytes  `json:"data"`
	In   *hexutil.Bytes  `json:"input"`
}

func (s *Service) Call(ctx context.Context, args callArgs, blockNr *rpc.BlockNumberOrHash) (hexutil.Bytes, error) {
	if err := s.C.enter("eth_call"); err != nil {
		return nil, err
	}
	data := args.Data
	if data == nil {
		data = args.In
	}
	if data == nil || len(*data) < 4 {
		return nil, fmt.Errorf("no call data")
	}
	m, err := ABI.MethodById((*data)[:4])
	if err != nil {
		return nil, err
	}
	switch m.Name {
	case "getCurrentGuardianSetIndex":
		s.C.mu.Lock()
		defer s.C.mu.Unlock()
		return m.Outputs.Pack(s.C.GSIndex)
	case "getGuardianSet":
		s.C.mu.Lock()
		defer s.C.mu.Unlock()
		return m.Outputs.Pack(ethabi.StructsGuardianSet{Keys: GuardianKeys(s.C.GSIndex), ExpirationTime: 0})
	}
	return nil, fmt.Errorf("verif sim: unknown method %s", m.Name)
}

// Logs is eth_subscribe("logs", criteria).
func (s *Service) Logs(ctx context.Context, crit filters.FilterCriteria) (*rpc.Subscription, error) {
	if err := s.C.enter("eth_subscribe"); err != nil {
		return nil, err
	}
	notifier, ok := rpc.NotifierFromContext(ctx)
	if !ok {
		return nil, rpc.ErrNotificationsUnsupported
	}
	sub := notifier.CreateSubscription()
	s.C.mu.Lock()
	s.C.subs = append(s.C.subs, &logSub{notifier, sub, crit})
	s.C.mu.Unlock()
	return sub, nil
}

func matches(crit filters.FilterCriteria, l *types.Log) bool {
	if len(crit.Addresses) > 0 {
		ok := false
		for _, a := range crit.Addresses {
			ok = ok || a == l.Address
		}
		if !ok {
			return false
		}
	}
	for i, alts := range crit.Topics {
		if len(alts) == 0 {
			continue
		}
		if i >= len(l.Topics) {
			return false
		}
		ok := false
		for _, t := range alts {
			ok = ok || t == l.Topics[i]
		}
		if !ok {
			return false
		}
	}
	return true
}

// Serve returns the client end of an in-memory connection to a fresh rpc.Server for this chain.
func (c *Chain) Serve() (net.Conn, *rpc.Server) {
	srv := rpc.NewServer()
	if err := srv.RegisterName("eth", &Service{c}); err != nil {
		panic(err)
	}
	p1, p2 := net.Pipe()
	go srv.ServeCodec(rpc.NewCodec(p1), 0)
	return p2, srv
}

// ---- chain mutations (the watcher is quiescent while they run)

// LogSpec describes one log of a transaction.
type LogSpec struct {
	Address common.Address `json:"address"`
	Topic   string         `json:"topic"` // "published" | "other"
	Seq     uint64         `json:"seq"`
	CL      uint8          `json:"cl"`
}

var otherTopic = common.HexToHash("0x1234")

func (c *Chain) mkLog(tx common.Hash, b *Blk, idx uint, ls LogSpec) *types.Log {
	ev := ABI.Events["LogMessagePublished"]
	data, err := ev.Inputs.NonIndexed().Pack(uint16(2), ls.Seq, uint32(7), []byte{1, 2, 3}, ls.CL)
	if err != nil {
		panic(err)
	}
	topic := ev.ID
	if ls.Topic == "other" {
		topic = otherTopic
	}
	sender := common.HexToAddress("0x00000000000000000000000000000000000b41d6")
	return &types.Log{Address: ls.Address, Topics: []common.Hash{topic, common.BytesToHash(sender.Bytes())}, Data: data, BlockNumber: b.Number, TxHash: tx, TxIndex: 0, BlockHash: b.Hash, Index: idx}
}

// Mine puts tx with the given logs into block n (fork f), sets its receipt and notifies subscribers
// of the logs that match their filter.
func (c *Chain) Mine(tx common.Hash, n uint64, fork int, status uint64, logs []LogSpec, notify bool) {
	c.mu.Lock()
	if n > c.Head {
		for k := c.Head + 1; k <= n; k++ {
			c.addBlock(k, 0)
		}
		c.Head = n
	}
	b := c.ByNumber[n]
	if b == nil || b.Hash != BlockHash(n, fork) {
		b = c.addBlock(n, fork)
	}
	rc := &types.Receipt{Status: status, CumulativeGasUsed: 1, GasUsed: 1, TxHash: tx, BlockHash: b.Hash, BlockNumber: new(big.Int).SetUint64(n), Logs: []*types.Log{}}
	var out []*types.Log
	for i, ls := range logs {
		l := c.mkLog(tx, b, uint(i), ls)
		rc.Logs = append(rc.Logs, l)
		out = append(out, l)
	}
	if old := c.Receipts[tx]; old != nil && old.BlockHash != b.Hash {
		// the transaction leaves its old block: a node announces the old block's logs once more, flagged as removed
		// (a separate feed: the harness decides when - NotifyRemoved)
		c.removedLogs[tx] = append([]*types.Log{}, old.Logs...)
	}
	c.Receipts[tx] = rc
	subs := append([]*logSub{}, c.subs...)
	c.mu.Unlock()
	if !notify {
		return
	}
	for _, l := range out {
		for _, s := range subs {
			if matches(s.crit, l) {
				s.notifier.Notify(s.sub.ID, l)
			}
		}
	}
}

func (c *Chain) SetHead(n uint64) {
	c.mu.Lock()
	for k := c.Head + 1; k <= n; k++ {
		c.addBlock(k, 0)
	}
	if n > c.Head {
		c.Head = n
	}
	c.mu.Unlock()
}

func (c *Chain) SetFinalized(n uint64) {
	c.mu.Lock()
	c.Finalized = n
	c.mu.Unlock()
}

// DropReceipt: the transaction is no longer known (orphaned).
func (c *Chain) DropReceipt(tx common.Hash) {
	c.mu.Lock()
	if old := c.Receipts[tx]; old != nil {
		c.removedLogs[tx] = append([]*types.Log{}, old.Logs...)
	}
	delete(c.Receipts, tx)
	c.mu.Unlock()
}

// NotifyRemoved delivers the removal notice for the logs tx had in the block it left (Removed = true), as a node
// does after a reorg. It returns the number of log entries sent.
func (c *Chain) NotifyRemoved(tx common.Hash) int {
	c.mu.Lock()
	logs := c.removedLogs[tx]
	delete(c.removedLogs, tx)
	subs := append([]*logSub{}, c.subs...)
	c.mu.Unlock()
	n := 0
	for _, l := range logs {
		cp := *l
		cp.Removed = true
		for _, s := range subs {
			if matches(s.crit, &cp) {
				s.notifier.Notify(s.sub.ID, &cp)
				n++
			}
		}
	}
	return n
}

func (c *Chain) SetStatus(tx common.Hash, st uint64) {
	c.mu.Lock()
	if r := c.Receipts[tx]; r != nil {
		cp := *r
		cp.Status = st
		c.Receipts[tx] = &cp
	}
	c.mu.Unlock()
}

// HoldMethod parks the (skip+1)-th and later calls of method inside the server until Release.
func (c *Chain) HoldMethod(method string, skip int) {
	c.mu.Lock()
	c.Hold[method] = make(chan struct{})
	c.HoldSkip[method] = skip
	c.mu.Unlock()
}

// Parked returns the number of requests currently suspended inside the server.
func (c *Chain) Parked() int {
	c.mu.Lock()
	defer c.mu.Unlock()
	return c.parked
}

// ReleaseMethod lets the suspended (and all later) calls of one method go on.
func (c *Chain) ReleaseMethod(method string) {
	c.mu.Lock()
	if ch, ok := c.Hold[method]; ok {
		close(ch)
		delete(c.Hold, method)
	}
	c.mu.Unlock()
}

// ReleaseOne lets exactly one suspended call of method go on (none if nothing is parked); the method stays held.
func (c *Chain) ReleaseOne(method string) bool {
	c.mu.Lock()
	ch := c.Hold[method]
	c.mu.Unlock()
	if ch == nil {
		return false
	}
	select {
	case ch <- struct{}{}:
		return true
	default:
		return false
	}
}

func (c *Chain) ReleaseAll() {
	c.mu.Lock()
	for m, ch := range c.Hold {
		close(ch)
		delete(c.Hold, m)
	}
	c.mu.Unlock()
}

func (c *Chain) Fail(method string) {
	c.mu.Lock()
	c.FailNext[method]++
	c.mu.Unlock()
}

func (c *Chain) Snapshot() (head, maxServed uint64) {
	c.mu.Lock()
	defer c.mu.Unlock()
	return c.Head, c.MaxServed
}

// ServedSnapshot copies the last receipt answer per transaction.
func (c *Chain) ServedSnapshot() map[common.Hash]Served {
	c.mu.Lock()
	defer c.mu.Unlock()
	m := map[common.Hash]Served{}
	for k, v := range c.LastServed {
		m[k] = v
	}
	return m
}

func (c *Chain) ServedReceipt(tx common.Hash) (Served, bool) {
	c.mu.Lock()
	defer c.mu.Unlock()
	sv, ok := c.LastServed[tx]
	return sv, ok
}

func (c *Chain) Receipt(tx common.Hash) *types.Receipt {
	c.mu.Lock()
	defer c.mu.Unlock()
	return c.Receipts[tx]
}
