// C12: stored VAAs come back byte-exact and emitter queries never mix streams.
// Explicit-state enumeration of store contents: every set of <= 3 (thorough 4) stored VAAs over an
// identifier alphabet built to collide as strings (chains 1/10, 2/255, 4/42; targets 2/20/25/255/2550;
// sequences 1/10/11), plus overwrites with other signature bytes; in every content every query of
// the alphabet is asked through the real db.Database, the real PublicrpcServer methods and the real
// FindMissingMessages admin call, and compared with a plain map.
package main

import (
	"bytes"
	"context"
	"encoding/base64"
	"encoding/hex"
	"fmt"
	"net/http"
	"net/http/httptest"
	"sort"
	"sync"
	"sync/atomic"
	"time"

	"github.com/alephium/wormhole-fork/node/cmd/guardiand"
	"github.com/alephium/wormhole-fork/node/pkg/common"
	"github.com/alephium/wormhole-fork/node/pkg/db"
	gossipv1 "github.com/alephium/wormhole-fork/node/pkg/proto/gossip/v1"
	nodev1 "github.com/alephium/wormhole-fork/node/pkg/proto/node/v1"
	publicrpcv1 "github.com/alephium/wormhole-fork/node/pkg/proto/publicrpc/v1"
	"github.com/alephium/wormhole-fork/node/pkg/publicrpc"
	"github.com/alephium/wormhole-fork/node/pkg/vaa"
	"github.com/alephium/wormhole-fork/node/verifh/ev"
	"github.com/alephium/wormhole-fork/node/verifh/mc"
	"go.uber.org/zap"
	"google.golang.org/grpc/codes"
	"google.golang.org/grpc/status"
)

var r *ev.Run

type id struct {
	Chain  uint16 `json:"chain"`
	Addr   int    `json:"addr"` // 0 ordinary emitter, 1 governance emitter, 2 a third emitter
	Target uint16 `json:"target"`
	Seq    uint64 `json:"seq"`
}

var (
	govChain = vaa.ChainID(1)
	addrs    = func() [3]vaa.Address {
		var a [3]vaa.Address
		a[0][31] = 0x42
		a[1][31] = 0x04 // governance emitter
		a[2][0] = 0x42
		return a
	}()
)

func (i id) vaaID() vaa.VAAID {
	return vaa.VAAID{EmitterChain: vaa.ChainID(i.Chain), EmitterAddress: addrs[i.Addr], TargetChain: vaa.ChainID(i.Target), Sequence: i.Seq}
}

// mkVAA: a stored VAA; ver selects the signature bytes (an overwrite carries other signatures).
func mkVAA(i id, ver int) *vaa.VAA {
	v := &vaa.VAA{Version: 1, GuardianSetIndex: uint32(ver), Timestamp: time.Unix(1700000000, 0), Nonce: uint32(i.Seq), Sequence: i.Seq, ConsistencyLevel: 1,
		EmitterChain: vaa.ChainID(i.Chain), TargetChain: vaa.ChainID(i.Target), EmitterAddress: addrs[i.Addr], Payload: []byte{byte(i.Chain), byte(i.Target), byte(i.Seq), byte(ver/2 + 1)}} // ver 0/1: same body, other signatures; ver 2: other body
	if ver == 3 {
		// a VAA with an EMPTY payload: it can be stored and is returned byte for byte by lookups, but the
		// decoder refuses it - scans that decode stored values either refuse too or answer correctly
		v.Payload = nil
	}
	s := &vaa.Signature{Index: uint8(ver)}
	for k := range s.Signature {
		s.Signature[k] = byte(k*3 + ver + int(i.Seq))
	}
	v.Signatures = []*vaa.Signature{s}
	return v
}

type stored struct {
	ID  id  `json:"id"`
	Ver int `json:"signature_version"`
}

type world struct {
	d   *db.Database
	rpc *publicrpc.PublicrpcServer
	adm *guardiand.VerifPrivilegedService
}

func newWorld() *world {
	d, err := db.VerifOpenInMemory()
	if err != nil {
		ev.Broken("%v", err)
	}
	return &world{d, publicrpc.NewPublicrpcServer(zap.NewNop(), d, common.NewGuardianSetState(nil), govChain, addrs[1]),
		guardiand.VerifNewPrivilegedService(d, nil, nil, nil, govChain, addrs[1])}
}

var queries, contents int64

func viol(key, what string, content []stored, q interface{}) {
	r.Violation(key, what, map[string]interface{}{"store_content_in_order": content, "query": q})
}

func check(w *world, content []stored, queryIDs []id, triples []id) {
	atomic.AddInt64(&contents, 1)
	ref := map[id][]byte{}
	var touched []string
	undecodable := map[[3]int]bool{} // streams that hold a stored value the decoder refuses
	for _, s := range content {
		if s.Ver == 3 {
			undecodable[[3]int{int(s.ID.Chain), s.ID.Addr, int(s.ID.Target)}] = true
		}
	}
	for _, s := range content {
		v := mkVAA(s.ID, s.Ver)
		if err := w.d.StoreSignedVAA(v); err != nil {
			viol("store returns an error", err.Error(), content, s)
		}
		b, _ := v.Marshal()
		ref[s.ID] = b
		vid := s.ID.vaaID()
		touched = append(touched, string(vid.Bytes()))
	}
	defer w.d.VerifDeleteKeys(touched)
	ctx := context.Background()
	hexa := func(a int) string { return hex.EncodeToString(addrs[a][:]) }
	// ---- point lookups: local and public RPC
	for _, q := range queryIDs {
		atomic.AddInt64(&queries, 2)
		want, has := ref[q]
		got, err := w.d.GetSignedVAABytes(q.vaaID())
		switch {
		case has && (err != nil || !bytes.Equal(got, want)):
			viol("lookup of a stored identifier does not return its exact bytes", fmt.Sprint(err), content, q)
		case !has && err != db.ErrVAANotFound:
			viol("lookup of an absent identifier does not yield not-found", fmt.Sprintf("err=%v, %d bytes", err, len(got)), content, q)
		}
		resp, err := w.rpc.GetSignedVAA(ctx, &publicrpcv1.GetSignedVAARequest{MessageId: &publicrpcv1.MessageID{
			EmitterChain: publicrpcv1.ChainID(q.Chain), EmitterAddress: hexa(q.Addr), TargetChain: publicrpcv1.ChainID(q.Target), Sequence: q.Seq}})
		switch {
		case has && (err != nil || !bytes.Equal(resp.VaaBytes, want)):
			viol("public RPC GetSignedVAA does not return the stored bytes", fmt.Sprint(err), content, q)
		case !has && status.Code(err) != codes.NotFound:
			viol("public RPC GetSignedVAA for an absent identifier is not NotFound", fmt.Sprintf("err=%v", err), content, q)
		}
	}
	// ---- identifiers whose chain ids do not fit 16 bits must not alias a stored identifier
	for _, s := range content {
		for _, variant := range []struct {
			ec, tc int32
			what   string
		}{{int32(s.ID.Chain) + 65536, int32(s.ID.Target), "emitter chain + 65536"}, {int32(s.ID.Chain), int32(s.ID.Target) + 65536, "target chain + 65536"}} {
			atomic.AddInt64(&queries, 1)
			resp, err := w.rpc.GetSignedVAA(ctx, &publicrpcv1.GetSignedVAARequest{MessageId: &publicrpcv1.MessageID{
				EmitterChain: publicrpcv1.ChainID(variant.ec), EmitterAddress: hexa(s.ID.Addr), TargetChain: publicrpcv1.ChainID(variant.tc), Sequence: s.ID.Seq}})
			if err == nil && resp != nil && len(resp.VaaBytes) > 0 {
				viol("public RPC GetSignedVAA returns a stored VAA for another identifier ("+variant.what+" wraps to the stored chain id)", "", content, map[string]interface{}{"emitter_chain": variant.ec, "target_chain": variant.tc, "stored": s.ID})
			}
			atomic.AddInt64(&queries, 2)
			nb, err := w.rpc.GetNonGovernanceVAABatch(ctx, &publicrpcv1.GetNonGovernanceVAABatchRequest{EmitterChain: publicrpcv1.ChainID(variant.ec), EmitterAddress: hexa(s.ID.Addr), TargetChain: publicrpcv1.ChainID(variant.tc), Sequences: []uint64{s.ID.Seq}})
			if err == nil && nb != nil && len(nb.Entries) > 0 {
				viol("GetNonGovernanceVAABatch returns a stored VAA for another stream ("+variant.what+" wraps)", "", content, s.ID)
			}
			fm, err := w.adm.FindMissingMessages(ctx, &nodev1.FindMissingMessagesRequest{EmitterChain: uint32(variant.ec), EmitterAddress: hexa(s.ID.Addr), TargetChain: uint32(variant.tc)})
			if err == nil && fm != nil && fm.LastSequence != 0 {
				viol("FindMissingMessages reports the sequences of another stream ("+variant.what+" wraps)", "", content, s.ID)
			}
		}
	}
	// ---- stream queries
	for _, t := range triples {
		atomic.AddInt64(&queries, 3)
		present := map[uint64]bool{}
		var max uint64
		for k := range ref {
			if k.Chain == t.Chain && k.Addr == t.Addr && k.Target == t.Target {
				present[k.Seq] = true
				if k.Seq > max {
					max = k.Seq
				}
			}
		}
		var wantMissing []uint64
		// range 0..max (max = 0 for an empty stream: sequence 0 is then missing), as pinned by the repo's test
		for s := uint64(0); s <= max; s++ {
			if !present[s] {
				wantMissing = append(wantMissing, s)
			}
		}
		refusable := undecodable[[3]int{int(t.Chain), t.Addr, int(t.Target)}]
		miss, _, last, err := w.d.FindEmitterSequenceGap(t.vaaID())
		if err != nil {
			if !refusable {
				viol("gap scan returns an error", err.Error(), content, t)
			}
		} else if !equalU64(miss, wantMissing) || last != max {
			viol("gap scan of one (emitter chain, emitter, target chain) stream is affected by other streams", fmt.Sprintf("missing=%v last=%d, want missing=%v last=%d", miss, last, wantMissing, max), content, t)
		}
		fm, err := w.adm.FindMissingMessages(ctx, &nodev1.FindMissingMessagesRequest{EmitterChain: uint32(t.Chain), EmitterAddress: hexa(t.Addr), TargetChain: uint32(t.Target)})
		if err != nil {
			if !refusable {
				viol("FindMissingMessages returns an error", err.Error(), content, t)
			}
		} else {
			var wantStr []string
			for _, s := range wantMissing {
				wantStr = append(wantStr, fmt.Sprintf("%d/%s/%d/%d", t.Chain, hexa(t.Addr), t.Target, s))
			}
			if !equalStr(fm.MissingMessages, wantStr) || fm.LastSequence != max {
				viol("FindMissingMessages reports sequences of another stream", fmt.Sprintf("%v last=%d want %v last=%d", fm.MissingMessages, fm.LastSequence, wantStr, max), content, t)
			}
		}
		// non-governance batch: ask for every sequence of the alphabet
		asked := []uint64{10, 0, 12, 1, 11, 2, 9} // deliberately not monotone
		nb, err := w.rpc.GetNonGovernanceVAABatch(ctx, &publicrpcv1.GetNonGovernanceVAABatchRequest{EmitterChain: publicrpcv1.ChainID(t.Chain), EmitterAddress: hexa(t.Addr), TargetChain: publicrpcv1.ChainID(t.Target), Sequences: asked})
		if err != nil {
			viol("GetNonGovernanceVAABatch returns an error", err.Error(), content, t)
		} else {
			got := map[uint64][]byte{}
			for _, e := range nb.Entries {
				got[e.Sequence] = e.VaaBytes
			}
			for _, s := range asked {
				want, has := ref[id{t.Chain, t.Addr, t.Target, s}]
				if has != (got[s] != nil) || (has && !bytes.Equal(got[s], want)) {
					viol("GetNonGovernanceVAABatch does not report exactly the asked sequences present in the stream", fmt.Sprintf("sequence %d", s), content, t)
				}
			}
			if len(got) != len(nb.Entries) {
				viol("GetNonGovernanceVAABatch reports a sequence twice", "", content, t)
			}
		}
	}
	// ---- governance batch (governance emitter = chain 1, address #1), for several asked-sequence lists
	for _, asked := range [][]uint64{{0, 1, 2, 9, 10, 11}, {1}, {10, 11}, {}, {2, 0, 1}, {1, 2, 0}, {11, 1, 10, 0}, {10, 0, 11, 1, 9}, {11, 10, 9, 2, 1, 0}, {1, 1, 10}, {1, 1 << 63, 1<<64 - 1}} {
		atomic.AddInt64(&queries, 1)
		gb, err := w.rpc.GetGovernanceVAABatch(ctx, &publicrpcv1.GetGovernanceVAABatchRequest{Sequences: asked})
		if err != nil {
			viol("GetGovernanceVAABatch returns an error", err.Error(), content, asked)
			continue
		}
		type ent struct {
			t uint16
			s uint64
		}
		want := map[ent][]byte{}
		for k, b := range ref {
			if k.Chain == uint16(govChain) && k.Addr == 1 {
				for _, a := range asked {
					if a == k.Seq {
						want[ent{k.Target, k.Seq}] = b
					}
				}
			}
		}
		got := map[ent][]byte{}
		for _, e := range gb.Entries {
			got[ent{uint16(e.TargetChain), e.Sequence}] = e.VaaBytes
		}
		ok := len(got) == len(want) && len(gb.Entries) == len(want)
		for k, b := range want {
			if !bytes.Equal(got[k], b) {
				ok = false
			}
		}
		if !ok {
			viol("governance batch does not report exactly the asked governance-emitter entries", fmt.Sprintf("got %d entries, want %d", len(gb.Entries), len(want)), content, asked)
		}
	}
}

func equalU64(a, b []uint64) bool {
	if len(a) != len(b) {
		return false
	}
	for i := range a {
		if a[i] != b[i] {
			return false
		}
	}
	return true
}

func equalStr(a, b []string) bool {
	a, b = append([]string{}, a...), append([]string{}, b...)
	sort.Strings(a)
	sort.Strings(b)
	if len(a) != len(b) {
		return false
	}
	for i := range a {
		if a[i] != b[i] {
			return false
		}
	}
	return true
}

// backfill: FindMissingMessages with RPC backfill against a stub of other guardians' REST gateway (an in-process
// HTTP server that answers /v1/signed_vaa/<emitter chain>/<address>/<target chain>/<sequence> from a map and
// records every request): the backfill nodes are asked for exactly the identifiers missing in the scanned stream -
// never for an identifier of another stream - every VAA they return is handed to the processor queue, and a gap
// stays in the report unless the node served that very identifier.
func hexAddr(a int) string { return hex.EncodeToString(addrs[a][:]) }

func backfill() {
	type key struct {
		c, t uint16
		a    int
		s    uint64
	}
	for _, sc := range []struct {
		name         string
		ec, tc       uint16
		stored, node []key
	}{
		{"gap, node holds the reverse stream", 2, 4, []key{{2, 4, 0, 0}, {2, 4, 0, 1}, {2, 4, 0, 3}}, []key{{4, 2, 0, 2}}},
		{"gap, node holds the missing one and the reverse stream", 2, 4, []key{{2, 4, 0, 0}, {2, 4, 0, 1}, {2, 4, 0, 3}}, []key{{4, 2, 0, 2}, {2, 4, 0, 2}}},
		{"gap, node holds another emitter address", 2, 255, []key{{2, 255, 0, 0}, {2, 255, 0, 2}}, []key{{2, 255, 2, 1}}},
		{"two gaps, node holds one", 10, 2, []key{{10, 2, 0, 0}, {10, 2, 0, 3}}, []key{{10, 2, 0, 1}}},
	} {
		w := newWorld()
		var touched []string
		for _, k := range sc.stored {
			v := mkVAA(id{k.c, k.a, k.t, k.s}, 0)
			w.d.StoreSignedVAA(v)
			vid := id{k.c, k.a, k.t, k.s}.vaaID()
			touched = append(touched, string(vid.Bytes()))
		}
		nodeHas := map[string][]byte{}
		for _, k := range sc.node {
			b, _ := mkVAA(id{k.c, k.a, k.t, k.s}, 0).Marshal()
			nodeHas[fmt.Sprintf("/v1/signed_vaa/%d/%s/%d/%d", k.c, hexAddr(k.a), k.t, k.s)] = b
		}
		var asked []string
		var mu sync.Mutex
		srv := httptest.NewServer(http.HandlerFunc(func(rw http.ResponseWriter, rq *http.Request) {
			mu.Lock()
			asked = append(asked, rq.URL.Path)
			mu.Unlock()
			if b, ok := nodeHas[rq.URL.Path]; ok {
				rw.Header().Set("Content-Type", "application/json")
				fmt.Fprintf(rw, `{"vaaBytes":"%s"}`, base64.StdEncoding.EncodeToString(b))
				return
			}
			http.Error(rw, "not found", 404)
		}))
		signedIn := make(chan *gossipv1.SignedVAAWithQuorum, 16)
		adm := guardiand.VerifNewPrivilegedService(w.d, nil, nil, signedIn, govChain, addrs[1])
		resp, err := adm.FindMissingMessages(context.Background(), &nodev1.FindMissingMessagesRequest{EmitterChain: uint32(sc.ec), EmitterAddress: hexAddr(0), TargetChain: uint32(sc.tc), RpcBackfill: true, BackfillNodes: []string{srv.URL}})
		srv.Close()
		atomic.AddInt64(&queries, 1)
		rec := map[string]interface{}{"scenario": sc.name, "stored": sc.stored, "backfill_node_holds": sc.node, "asked": asked}
		if err != nil {
			viol("FindMissingMessages with backfill returns an error", err.Error(), nil, rec)
			w.d.VerifDeleteKeys(touched)
			continue
		}
		present := map[uint64]bool{}
		var max uint64
		for _, k := range sc.stored {
			present[k.s] = true
			if k.s > max {
				max = k.s
			}
		}
		var wantAsk, wantMissing []string
		for q := uint64(0); q <= max; q++ {
			if !present[q] {
				path := fmt.Sprintf("/v1/signed_vaa/%d/%s/%d/%d", sc.ec, hexAddr(0), sc.tc, q)
				wantAsk = append(wantAsk, path)
				if _, ok := nodeHas[path]; !ok {
					wantMissing = append(wantMissing, fmt.Sprintf("%d/%s/%d/%d", sc.ec, hexAddr(0), sc.tc, q))
				}
			}
		}
		if !equalStr(asked, wantAsk) {
			viol("backfill asks other nodes for identifiers that are not the missing ones of the scanned stream", fmt.Sprintf("%s: asked %v, want %v", sc.name, asked, wantAsk), nil, rec)
		}
		if !equalStr(resp.MissingMessages, wantMissing) {
			viol("backfill drops a gap from the report although no node served that identifier (or keeps one that was served)", fmt.Sprintf("%s: reported %v, want %v", sc.name, resp.MissingMessages, wantMissing), nil, rec)
		}
		w.d.VerifDeleteKeys(touched)
	}
}

func main() {
	r = ev.Start("C12", "model_checking")
	// 258 = 2 + 256, 511 = 255 + 256, 10001 = 17 + 39*256: chain ids that coincide once narrowed to 8 bits
	chains := []uint16{1, 2, 10, 255, 258, 511}
	targets := []uint16{0, 2, 4, 17, 20, 25, 42, 255, 258, 2550, 10001}
	seqs := []uint64{0, 1, 2, 9, 10, 11}
	var queryIDs, triples []id
	for _, c := range chains {
		for a := 0; a < 2; a++ {
			for _, t := range targets {
				triples = append(triples, id{c, a, t, 0})
				for _, s := range seqs {
					queryIDs = append(queryIDs, id{c, a, t, s})
				}
			}
		}
	}
	// sequences with the top bit set (a sequence is a full 64-bit counter; rendered or parsed as a signed number
	// it turns negative), on a target chain no gap scan looks at (a scan from 0 would not end)
	topSeqs := []id{{1, 1, 9, 1 << 63}, {1, 1, 9, 1<<64 - 1}, {1, 1, 9, 1<<63 - 1}, {2, 0, 9, 1 << 63}, {2, 0, 9, 1<<64 - 1}}
	queryIDs = append(queryIDs, topSeqs...)
	queryIDs = append(queryIDs, id{1, 1, 9, 3}, id{2, 0, 9, 3})
	// the storable sub-alphabet: chosen so that every prefix collision has both sides
	storable := []id{
		{2, 0, 2, 1}, {2, 0, 2, 10}, {2, 0, 20, 1}, {2, 0, 25, 2}, {2, 0, 255, 0}, {2, 0, 2550, 11}, {2, 0, 4, 1}, {2, 0, 42, 1},
		{255, 0, 2, 1}, {10, 0, 2, 1}, {1, 0, 2, 1}, {1, 0, 0, 9},
		{1, 1, 0, 1}, {1, 1, 2, 1}, {1, 1, 2, 10}, {1, 1, 20, 1}, {1, 1, 255, 11}, {1, 1, 0, 0}, // governance emitter
		{10, 1, 0, 1}, {2, 1, 2, 1}, // governance ADDRESS on another chain: not governance
		{2, 2, 2, 1}, {1, 2, 0, 1}, // a third emitter address
		{2, 0, 2, 0}, {2, 0, 2, 2}, {2, 0, 20, 0}, {255, 0, 255, 10}, {10, 0, 20, 9}, {1, 1, 4, 1},
		{2, 0, 258, 1}, {258, 0, 2, 1}, {2, 0, 17, 1}, {2, 0, 10001, 1}, {511, 0, 2, 1}, // 8-bit aliases of {2,0,2,1}, {2,0,17,1}, {255,0,2,1}
	}
	r.Set("storable_ids", len(storable))
	maxK := r.Pick(3, 4)
	var all [][]stored
	var rec func(start int, cur []stored)
	rec = func(start int, cur []stored) {
		all = append(all, append([]stored{}, cur...))
		if len(cur) == maxK {
			return
		}
		for i := start; i < len(storable); i++ {
			rec(i+1, append(cur, stored{storable[i], 0}))
		}
	}
	rec(0, nil)
	// overwrites: every pair {a, b} plus a second store of a with other signatures, in both orders
	for i := range storable {
		for j := range storable {
			if i != j {
				all = append(all, []stored{{storable[i], 0}, {storable[j], 0}, {storable[i], 1}})
			}
		}
		all = append(all, []stored{{storable[i], 0}, {storable[i], 1}}, []stored{{storable[i], 1}, {storable[i], 0}}, []stored{{storable[i], 0}, {storable[i], 2}}, []stored{{storable[i], 0}, {storable[i], 1}, {storable[i], 0}})
	}
	for _, t := range topSeqs {
		all = append(all, []stored{{t, 0}}, []stored{{t, 0}, {id{1, 1, 0, 1}, 0}, {id{1, 1, 2, 10}, 0}, {id{2, 0, 2, 1}, 0}}, []stored{{id{1, 1, 0, 1}, 0}, {t, 0}, {t, 1}})
	}
	// stored values the decoder refuses (empty payload) inside gap-scanned streams: at the bottom, in the middle
	// and at the top of a stream with a gap, alone, and next to another stream
	for _, st := range [][]id{{{2, 0, 2, 0}, {2, 0, 2, 1}, {2, 0, 2, 2}, {2, 0, 2, 10}}, {{1, 1, 2, 1}, {1, 1, 2, 10}}, {{255, 0, 255, 10}}} {
		for bad := range st {
			for mask := 0; mask < 1<<len(st); mask++ {
				if mask&(1<<bad) == 0 {
					continue
				}
				var c []stored
				for i, x := range st {
					if mask&(1<<i) != 0 {
						ver := 0
						if i == bad {
							ver = 3
						}
						c = append(c, stored{x, ver})
					}
				}
				all = append(all, c, append([]stored{{id{2, 0, 20, 1}, 0}}, c...))
			}
		}
	}
	// large stores: more entries than any read-ahead window of the store's iterator (badger prefetches 100
	// items): a short stream in front of a 300-entry stream, a 150-entry stream with one gap, both together
	{
		var big []stored
		for q := uint64(0); q < 300; q++ {
			big = append(big, stored{id{255, 0, 4, q}, 0})
		}
		var short []stored
		for q := uint64(0); q < 5; q++ {
			short = append(short, stored{id{255, 0, 2, q}, 0})
		}
		var holed []stored
		for q := uint64(0); q < 150; q++ {
			if q != 120 {
				holed = append(holed, stored{id{10, 0, 2, q}, 0})
			}
		}
		extra := []id{{255, 0, 2, 0}, {255, 0, 4, 0}, {10, 0, 2, 0}}
		for _, t := range extra {
			found := false
			for _, x := range triples {
				found = found || (x.Chain == t.Chain && x.Addr == t.Addr && x.Target == t.Target)
			}
			if !found {
				triples = append(triples, t)
			}
		}
		all = append(all, append(append([]stored{}, short...), big...), holed, append(append(append([]stored{}, short...), big...), holed...))
	}
	pool := make(chan *world, 16)
	var once sync.Once
	_ = once
	for i := 0; i < 16; i++ {
		pool <- newWorld()
	}
	mc.ParallelFor(len(all), func(i int) {
		w := <-pool
		func() {
			defer func() {
				if p := recover(); p != nil {
					viol("panic while querying the store", fmt.Sprint(p), all[i], nil)
				}
			}()
			check(w, all[i], queryIDs, triples)
		}()
		pool <- w
	})
	// thorough: a slice of the contents again on the on-disk store opened with the real db.Open
	disk := 0
	if r.Thorough() {
		dir := fmt.Sprintf("/var/tmp/verif-c12-%d", time.Now().UnixNano())
		d, err := db.Open(dir)
		if err != nil {
			ev.Broken("%v", err)
		}
		w := &world{d, publicrpc.NewPublicrpcServer(zap.NewNop(), d, common.NewGuardianSetState(nil), govChain, addrs[1]), guardiand.VerifNewPrivilegedService(d, nil, nil, nil, govChain, addrs[1])}
		for i := 0; i < len(all); i += 20 {
			check(w, all[i], queryIDs, triples)
			disk++
		}
		d.Close()
		removeAll(dir)
	}
	backfill()
	r.Set("on_disk_contents", disk)
	r.Set("states", int(contents))
	r.Set("transitions", int(queries))
	r.Set("traces_validated_against_impl", int(contents))
	r.Sample(all[1])
	r.Sample(all[len(all)/2])
	r.Sample(all[len(all)-1])
	r.Set("rule", fmt.Sprintf("state = store content (ordered list of stores, <= %d distinct ids from a 28-id alphabet built to collide as strings, plus overwrite contents); transitions = queries asked (every one of 384 identifiers by lookup and RPC, gap scan + FindMissingMessages + non-governance batch for each of 64 streams, 4 governance batches, chain-id wrap probes)", maxK))
	r.Assume("gap scan semantics as pinned by the repository's own test: the range starts at 0, missing = {0..max} minus present, last = max")
	r.Assume("every content is built on a wiped in-memory badger through the real db.Database; thorough repeats a 5% slice on an on-disk store")
	r.Finish()
}

func removeAll(dir string) { _ = osRemoveAll(dir) }
