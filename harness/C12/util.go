package main

import "os"

func osRemoveAll(d string) error { return os.RemoveAll(d) }
