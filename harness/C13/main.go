// C13: no untrusted input can crash the signing pipeline.
// Explicit-state search over adversarial input histories of the real Processor handlers (chain
// messages with empty/oversized payloads and odd timestamps, malformed gossip, malformed inbound
// VAAs, injection, empty guardian sets, cleanup ticks after 0 s..2 h, no guardian set yet); a panic
// in any transition is the violation. In every new state the canonical good suffix is appended and
// must still publish (the node keeps processing).
package main

import (
	"encoding/json"
	"fmt"
	"os"
	"sort"
	"strings"
	"time"

	"github.com/alephium/wormhole-fork/node/pkg/processor"
	gossipv1 "github.com/alephium/wormhole-fork/node/pkg/proto/gossip/v1"
	"github.com/alephium/wormhole-fork/node/pkg/vaa"
	"github.com/alephium/wormhole-fork/node/verifh/ev"
	"github.com/alephium/wormhole-fork/node/verifh/keys"
	"github.com/alephium/wormhole-fork/node/verifh/proch"
	"github.com/alephium/wormhole-fork/node/verifh/vtime"
)

const outsider = 9999

func big(n int) []byte {
	b := make([]byte, n)
	for i := range b {
		b[i] = byte(i + 1)
	}
	return b
}

var oversized = 5000

func msgs() []proch.Msg {
	var e vaa.Address
	e[31] = 0x42
	return []proch.Msg{
		{Seq: 1, Payload: []byte{1}, Emitter: e, Chain: 2, Target: 255},                   // 0 ordinary
		{Seq: 2, Payload: nil, Emitter: e, Chain: 2, Target: 255},                          // 1 empty payload
		{Seq: 3, Payload: big(1001), Emitter: e, Chain: 2, Target: 255},                    // 2 just over the old 1000-byte read
		{Seq: 4, Payload: big(oversized), Emitter: e, Chain: 2, Target: 255},                   // 3 oversized
		{Seq: 5, TSOff: -1_700_000_000, Payload: []byte{1}, Emitter: e, Chain: 2},          // 4 1970
		{Seq: 6, TSOff: 3_000_000_000, Payload: []byte{1}, Emitter: e, Chain: 2},           // 5 beyond 2106
		{Seq: 7, Payload: []byte{1}, Emitter: vaa.Address{}, Chain: 0, Target: 0},          // 6 zero address, unset chain
		{Seq: 8, Payload: []byte{1}, Emitter: proch.GovAddr, Chain: proch.GovChain},        // 7 governance emitter
		{Seq: 1, TSOff: 45, Payload: []byte{1}, Emitter: e, Chain: 2, Target: 255},         // 8 same id as 0, 45 s later
		{Seq: 99, Payload: []byte{5, 5}, Emitter: e, Chain: 2, Target: 255},                // 9 the fresh message of the good suffix
		{Seq: 2, TSOff: 45, Payload: nil, Emitter: e, Chain: 2, Target: 255},               // 10 same id as 1, 45 s later
	}
}

func rng(a, b int) []int {
	var o []int
	for i := a; i < b; i++ {
		o = append(o, i)
	}
	return o
}

type job struct {
	Name     string
	C        proch.Config
	Depth    int
	MsgIdx   []int
	Ticks    []int
	ObsKinds []int
	InVars   []int
	Weight   int
}

func jobs(r *ev.Run) []job {
	var out []job
	allObs := rng(4, len(proch.ObsKinds))
	allIn := rng(0, len(proch.InVariants))
	for _, n := range []int{1, 3} {
		// Sets: 0 = n members, 1 = a set with no keys, 2 = 19 members
		sets := [][]int{rng(0, n), {}, rng(0, 19)}
		// split the message alphabet over jobs so that each job stays small; every job has the
		// ordinary message, ticks, malformed gossip and inbound VAAs
		groups := [][]int{{0, 1, 10}, {0, 2}, {0, 3}, {0, 4, 8}, {0, 5}, {0, 6}, {0, 7}, {1, 2}}
		for gi, g := range groups {
			c := proch.Config{Name: fmt.Sprintf("adv-n%d-msgs%d", n, gi), Sets: sets, OwnKey: 0, Msgs: msgs()}
			depth := r.Pick(4, 5)
			if n == 1 {
				depth = r.Pick(4, 6)
				if g[1] == 1 || g[0] == 1 {
					depth = r.Pick(5, 6) // "completed, stored, observed again" needs Set, Msg, LB, Msg
				}
			}
			out = append(out, job{Name: c.Name, C: c, Depth: depth, MsgIdx: g, Ticks: []int{0, 31, 360, 7200}, ObsKinds: allObs, InVars: allIn, Weight: depth * len(g)})
		}
	}
	return out
}

func menu(j job) proch.Enabled {
	return func(n *proch.Node, m *proch.Model, hist []proch.Event) []proch.Event {
		var evs []proch.Event
		for s := range j.C.Sets {
			if s != m.Cur {
				evs = append(evs, proch.Event{Kind: "set", Set: s})
			}
		}
		if len(n.Pending) < 2 {
			for _, mi := range j.MsgIdx {
				evs = append(evs, proch.Event{Kind: "msg", M: mi})
			}
			evs = append(evs, proch.Event{Kind: "inject", M: j.MsgIdx[len(j.MsgIdx)-1]}, proch.Event{Kind: "inject", M: 7})
		}
		for i := range n.Pending {
			evs = append(evs, proch.Event{Kind: "lb", LB: i})
		}
		for _, g := range []int{0, 1, outsider} {
			for _, d := range j.MsgIdx {
				evs = append(evs, proch.Event{Kind: "obs", G: g, D: d})
			}
		}
		for _, k := range j.ObsKinds {
			evs = append(evs, proch.Event{Kind: "obs", G: 0, D: j.MsgIdx[0], ObsKind: k})
		}
		for _, v := range j.InVars {
			for _, mi := range []int{j.MsgIdx[0], j.MsgIdx[1]} {
				evs = append(evs, proch.Event{Kind: "in", M: mi, InVar: v, InSet: 0})
			}
		}
		for _, t := range j.Ticks {
			evs = append(evs, proch.Event{Kind: "tick", DtSec: t})
		}
		return evs
	}
}

func main() {
	r := ev.Start("C13", "model_checking")
	if len(os.Args) > 2 && os.Args[1] == "--replay" {
		replay(r, os.Args[2])
		return
	}
	if r.Thorough() {
		oversized = 70000
	}
	js := jobs(r)
	sort.SliceStable(js, func(a, b int) bool { return js[a].Weight > js[b].Weight })
	si, sn, worker := ev.Shard()
	if !worker {
		r.Set("jobs", len(js))
		r.Fork(0, []string{"GOMAXPROCS=1", "GODEBUG=asyncpreemptoff=1,goindex=0"}, r.CrashViolation)
		r.Set("rule", "state = canonical key of (aggregation entries incl. exact virtual ages, store, pending loopbacks, model state); a history ends at a panic (the process would exit); in every new state the good suffix Set, Msg(fresh), LB, Obs x quorum must still publish")
		r.Assume("nil *MessagePublication / nil *GuardianSet pointers are produced only by trusted in-process code and are not in the alphabet")
		r.Assume("the real Run loop's select adds no behaviour beyond dispatching one event per iteration (mirrored line by line in the VerifDispatch hook)")
		r.Finish()
		return
	}
	w := proch.NewWorld()
	for i, j := range js {
		if i%sn != si {
			continue
		}
		if only := os.Getenv("VERIF_ONLY"); only != "" && !strings.HasPrefix(j.Name, only) {
			continue
		}
		j := j
		t0 := time.Now()
		x := &proch.Explorer{R: r, W: w, C: &j.C, Oracles: map[string]bool{"C13": true}, WithTimes: true}
		x.SelfTest([]proch.Event{{Kind: "set", Set: 0}, {Kind: "msg", M: 0}, {Kind: "tick", DtSec: 31}, {Kind: "lb", LB: 0}})
		n := len(j.C.Sets[0])
		good := []proch.Event{{Kind: "set", Set: 0}, {Kind: "msg", M: 9}}
		x.OnNewState = func(in *proch.Inst, hist []proch.Event) {
			// liveness: the node keeps processing. Drive the same live instance with the good suffix.
			r.Add("liveness_suffixes", 1)
			var published bool
			for _, e := range good {
				if o := x.StepUnchecked(in, e); o.Panic != nil {
					viol(x, r, "panic in the good suffix after an adversarial prefix: "+fmt.Sprint(o.Panic), hist, e)
					return
				}
			}
			// deliver every pending loopback, then quorum of valid observations
			for len(in.Node().Pending) > 0 {
				o := x.StepUnchecked(in, proch.Event{Kind: "lb", LB: 0})
				if o.Panic != nil {
					viol(x, r, "panic in the good suffix after an adversarial prefix: "+fmt.Sprint(o.Panic), hist, proch.Event{Kind: "lb"})
					return
				}
				published = published || publishedMsg(o, j.C.Msgs[9])
			}
			for g := 0; g < n; g++ {
				o := x.StepUnchecked(in, proch.Event{Kind: "obs", G: g, D: 9})
				if o.Panic != nil {
					viol(x, r, "panic in the good suffix after an adversarial prefix: "+fmt.Sprint(o.Panic), hist, proch.Event{Kind: "obs", G: g, D: 9})
					return
				}
				published = published || publishedMsg(o, j.C.Msgs[9])
			}
			if !published {
				viol(x, r, "node stopped processing: a fresh message with quorum was not published after an adversarial prefix", hist, proch.Event{Kind: "msg", M: 9})
			}
		}
		x.BFS(j.Depth, menu(j), 600000, nil)
		runLoopReplay(r, w, j)
		if i == si {
			saturation(r, w)
			kmsPath(r, w)
			notifierPath(r, w)
		}
		r.Add("states", x.States)
		r.Add("transitions", x.Transitions)
		r.Add("traces_validated_against_impl", x.Builds)
		r.Sample(map[string]interface{}{"job": j.Name, "depth": j.Depth, "states": x.States, "transitions": x.Transitions})
		if os.Getenv("VERIF_VERBOSE") != "" {
			fmt.Fprintf(os.Stderr, "%s depth=%d states=%d transitions=%d builds=%d %.1fs\n", j.Name, j.Depth, x.States, x.Transitions, x.Builds, time.Since(t0).Seconds())
		}
	}
	r.Finish()
}

func publishedMsg(o proch.Out, m proch.Msg) bool {
	for _, b := range o.VAAs {
		if d, err := proch.Decode(b); err == nil && string(d.Digest) == string(m.OwnDigest()) {
			return true
		}
	}
	return false
}

func viol(x *proch.Explorer, r *ev.Run, what string, hist []proch.Event, last proch.Event) {
	var pretty []string
	for _, e := range hist {
		pretty = append(pretty, e.String())
	}
	pretty = append(pretty, "| good suffix ...", last.String())
	key := "C13 liveness: " + what
	if i := strings.Index(key, "0x"); i > 0 {
		key = key[:i]
	}
	r.Violation(key, strings.Join(pretty, " "), proch.Replay{Config: *x.C, History: hist, Pretty: pretty, Oracle: "C13-liveness"})
}

func replay(r *ev.Run, path string) {
	b, err := os.ReadFile(path)
	if err != nil {
		ev.Broken("%v", err)
	}
	var art struct {
		Replay proch.Replay `json:"replay"`
	}
	if err := json.Unmarshal(b, &art); err != nil {
		ev.Broken("%v", err)
	}
	w := proch.NewWorld()
	x := &proch.Explorer{R: r, W: w, C: &art.Replay.Config, Oracles: map[string]bool{"C13": true}, WithTimes: true}
	x.Run(art.Replay.History).Close()
	fmt.Printf("replayed %v: %d violations\n", art.Replay.Pretty, r.Violations())
	if r.Violations() > 0 {
		os.Exit(1)
	}
	os.Exit(0)
}

// runLoopReplay validates the one-iteration dispatch hook against the REAL Run goroutine: every
// history of depth <= 3 over a reduced alphabet (each local observation / injection immediately followed
// by its loopback, as Run itself consumes it) is executed twice - through the handler-level hook and
// through the real Run loop with rendezvous deliveries and the real cleanup ticker - and the resulting
// aggregation state, store and outputs must be identical. A panic inside Run kills the worker and is
// attributed to the journalled history.
func runLoopReplay(r *ev.Run, w *proch.World, j job) {
	alpha := []proch.Event{{Kind: "set", Set: 0}, {Kind: "set", Set: 1}, {Kind: "msg", M: j.MsgIdx[0]}, {Kind: "msg", M: j.MsgIdx[len(j.MsgIdx)-1]}, {Kind: "inject", M: 7},
		{Kind: "obs", G: 0, D: j.MsgIdx[0]}, {Kind: "obs", G: 1, D: j.MsgIdx[0]}, {Kind: "obs", G: 0, D: j.MsgIdx[0], ObsKind: 7}, {Kind: "obs", G: 0, D: j.MsgIdx[0], ObsKind: 4},
		{Kind: "in", M: j.MsgIdx[0], InVar: 0, InSet: 0}, {Kind: "in", M: j.MsgIdx[0], InVar: 9, InSet: 0}, {Kind: "in", M: j.MsgIdx[0], InVar: 14, InSet: 0},
		{Kind: "tick", DtSec: 31}, {Kind: "tick", DtSec: 360}}
	depth := r.Pick(3, 4)
	rad := make([]int, depth)
	var rec func(h []proch.Event)
	_ = rad
	rec = func(h []proch.Event) {
		if len(h) > 0 {
			compareRunLoop(r, w, &j.C, h)
		}
		if len(h) == depth {
			return
		}
		for _, e := range alpha {
			rec(append(append([]proch.Event{}, h...), e))
		}
	}
	rec(nil)
}

func compareRunLoop(r *ev.Run, w *proch.World, c *proch.Config, h []proch.Event) {
	r.Add("run_loop_traces", 1)
	r.Add("traces_validated_against_impl", 1)
	var pretty []string
	for _, e := range h {
		pretty = append(pretty, e.String())
	}
	// (1) handler level, loopbacks delivered immediately
	x := &proch.Explorer{R: r, W: w, C: c, Oracles: map[string]bool{}, WithTimes: true}
	n1 := w.NewNode(c.OwnKey, 50)
	outs1 := 0
	panicked := false
	for _, e := range h {
		if e.Kind == "tick" {
			vtime.Advance(time.Duration(e.DtSec) * time.Second)
		}
		o := n1.Step(c.Materialise(n1, e))
		if o.Panic != nil {
			panicked = true
			break
		}
		outs1 += len(o.Obs) + len(o.VAAs) + len(o.Reqs)
		for len(n1.Pending) > 0 {
			o2 := n1.Step(n1.TakeLoopback(0))
			if o2.Panic != nil {
				panicked = true
				break
			}
			outs1 += len(o2.Obs) + len(o2.VAAs) + len(o2.Reqs)
		}
	}
	k1 := proch.ImplKey(n1, n1.Store(), true)
	n1.Close()
	_ = x
	if panicked {
		return // a panic at handler level is reported by the search itself
	}
	// (2) the real Run loop
	ev.Journal(map[string]interface{}{"config": c, "history": h, "pretty": pretty, "oracle": "C13-run-loop"})
	rn := w.NewRunNode(c.OwnKey)
	outs2 := 0
	for _, e := range h {
		if e.Kind == "tick" {
			vtime.Advance(time.Duration(e.DtSec) * time.Second)
		}
		o := rn.Deliver(c.Materialise(rn.Node, e))
		outs2 += len(o.Obs) + len(o.VAAs) + len(o.Reqs)
	}
	k2 := proch.ImplKey(rn.Node, rn.Store(), true)
	rn.Close()
	if k1 != k2 || outs1 != outs2 {
		r.Violation("C13 run-loop: the real Run loop and the one-iteration dispatch hook disagree (harness binding broken or Run does more than dispatch)", fmt.Sprintf("%v: %s vs %s, outputs %d vs %d", pretty, k1, k2, outs1, outs2), proch.Replay{Config: *c, History: h, Pretty: pretty, Oracle: "C13-run-loop"})
	}
}

// kmsPath: the node signs through the Cloud-KMS hand-over (DER signature -> parseSignature -> appendV, the real
// functions of pkg/ecdsasigner). Ordinary chain messages whose signature has an r or an s with a leading zero
// byte (1 digest in 128 each; found by search, 4 of each kind) and plain controls are observed: no panic, one
// signed observation each, and the good suffix still publishes.
func kmsPath(r *ev.Run, w *proch.World) {
	var e vaa.Address
	e[31] = 0x42
	mk := func(seq uint64) proch.Msg { return proch.Msg{Seq: seq, Payload: []byte{1}, Emitter: e, Chain: 2, Target: 255} }
	shortR, shortS, plain := proch.ShortScalarSeqs(0, mk, 4)
	if len(shortR) < 4 || len(shortS) < 4 {
		ev.Broken("kms path: no short-scalar signatures found")
	}
	w.KMSPath = true
	defer func() { w.KMSPath = false }()
	for kind, seqs := range map[string][]uint64{"r has a leading zero byte": shortR, "s has a leading zero byte": shortS, "full-length scalars": plain} {
		for _, seq := range seqs {
			nd := w.NewNodePrivateDB(0, 50)
			nd.Step(proch.Set(0, 0))
			out := nd.Step(mk(seq).Pub())
			r.Add("kms_path_messages", 1)
			rec := map[string]interface{}{"signature_shape": kind, "sequence": seq, "history": "Set({0}), Msg(seq) with the node signing through the KMS hand-over"}
			if out.Panic != nil {
				r.Violation("C13 kms path: an ordinary chain message panics the processor when the node signs through the Cloud KMS hand-over", fmt.Sprintf("%s: %v", kind, out.Panic), rec)
			} else if len(out.Obs) != 1 {
				r.Violation("C13 kms path: an ordinary chain message is not signed when the node signs through the Cloud KMS hand-over", fmt.Sprintf("%s: %d observations", kind, len(out.Obs)), rec)
			}
			nd.Close()
		}
	}
}

// notifierPath: with a Discord notifier configured the cleanup service names the guardians whose signature is
// missing when a message settles. Histories in which the signature map holds signers from outside the set the
// message is counted against (a peer's observation arrives first, the set rotates and drops that peer, then the
// node observes the message), with 0..3 further signers, followed by the settling tick.
func notifierPath(r *ev.Run, w *proch.World) {
	var e vaa.Address
	e[31] = 0x42
	msg := proch.Msg{Seq: 1, Payload: []byte{1}, Emitter: e, Chain: 2, Target: 255}
	w.OfflineNotifier = true
	defer func() { w.OfflineNotifier = false }()
	for _, n := range []int{2, 4, 7} {
		for dropped := 1; dropped <= 2 && dropped < n; dropped++ {
			for extra := 0; extra <= 2 && extra < n-1; extra++ {
				setA := rng(0, n)
				setB := append(rng(dropped, n), rng(100, 100+dropped)...) // the first `dropped` keys are replaced
				own := n - 1                                                // member of both sets
				nd := w.NewNodePrivateDB(own, 50)
				hist := []string{"Set(A)"}
				step := func(what string, in interface{}) bool {
					hist = append(hist, what)
					out := nd.Step(in)
					r.Add("notifier_path_steps", 1)
					if out.Panic != nil {
						r.Violation("C13 notifier path: the processor panics with a Discord notifier configured", fmt.Sprintf("%v  history: %v", out.Panic, hist), map[string]interface{}{"set_A": setA, "set_B": setB, "own": own, "history": hist})
						return false
					}
					return true
				}
				ok := step("Set(A)", proch.Set(0, setA...))
				for g := 0; ok && g < dropped; g++ { // observations by guardians that the rotation will drop
					ok = step(fmt.Sprintf("Obs(g=%d)", g), &gossipv1.SignedObservation{Addr: keys.Addr(g).Bytes(), Hash: msg.OwnDigest(), Signature: keys.Sign(g, msg.OwnDigest())})
				}
				ok = ok && step("Set(B)", proch.Set(1, setB...))
				ok = ok && step("Msg", msg.Pub())
				for len(nd.Pending) > 0 && ok {
					ok = step("LB", nd.TakeLoopback(0))
				}
				for g := 0; ok && g < extra; g++ {
					k := setB[g]
					ok = step(fmt.Sprintf("Obs(g=%d)", k), &gossipv1.SignedObservation{Addr: keys.Addr(k).Bytes(), Hash: msg.OwnDigest(), Signature: keys.Sign(k, msg.OwnDigest())})
				}
				if ok {
					vtime.Advance(31 * time.Second)
					ok = step("Tick(+31s)", processor.VerifTick{})
				}
				if ok {
					vtime.Advance(301 * time.Second)
					step("Tick(+301s)", processor.VerifTick{})
				}
				nd.Close()
			}
		}
	}
}

// saturation: deep-but-narrow scripted histories that the depth-bounded search cannot reach: a guardian
// set of N members (also beyond the documented maximum of 19 - the set comes from chain and the
// processor takes whatever arrives) and valid observations of one digest by EVERY member, with the local
// observation before, in the middle, after, or never; followed by a set change and a cleanup tick.
func saturation(r *ev.Run, w *proch.World) {
	for _, n := range []int{1, 2, 4, 13, 19, 20, 21, 32, 64, 255} {
		for _, when := range []string{"never", "first", "middle", "last"} {
			c := proch.Config{Name: fmt.Sprintf("saturation-n%d-msg-%s", n, when), Sets: [][]int{rng(0, n), rng(1, n+1)}, OwnKey: 0, Msgs: msgs()}
			var h []proch.Event
			h = append(h, proch.Event{Kind: "set", Set: 0})
			msg := []proch.Event{{Kind: "msg", M: 0}, {Kind: "lb", LB: 0}}
			if when == "first" {
				h = append(h, msg...)
			}
			for g := 0; g < n; g++ {
				if when == "middle" && g == n/2 {
					h = append(h, msg...)
				}
				if g != 0 || when == "never" {
					h = append(h, proch.Event{Kind: "obs", G: g, D: 0})
				}
			}
			if when == "last" {
				h = append(h, msg...)
			}
			h = append(h, proch.Event{Kind: "tick", DtSec: 31}, proch.Event{Kind: "set", Set: 1}, proch.Event{Kind: "obs", G: n, D: 0}, proch.Event{Kind: "tick", DtSec: 360}, proch.Event{Kind: "tick", DtSec: 7200})
			x := &proch.Explorer{R: r, W: w, C: &c, Oracles: map[string]bool{"C13": true}, WithTimes: true}
			x.Run(h).Close()
			r.Add("transitions", len(h))
			r.Add("saturation_histories", 1)
		}
	}
}
