// C07: quorum threshold, exhaustively for n = 0..255, across the Go function (tree copy and the
// copy pinned by the explorer backend) and the formulas extracted from Messages.sol and governance.ral.
package main

import (
	"encoding/json"
	"fmt"
	"os"
	"os/exec"
	"path/filepath"
	"regexp"
	"strings"

	"github.com/alephium/wormhole-fork/node/pkg/processor"
	"github.com/alephium/wormhole-fork/node/pkg/vaa"
	"github.com/alephium/wormhole-fork/node/verifh/cm"
	"github.com/alephium/wormhole-fork/node/verifh/ev"
	"github.com/alephium/wormhole-fork/node/verifh/keys"
	"github.com/alephium/wormhole-fork/node/verifh/proch"
)

func extract(path string, re *regexp.Regexp, varGroup, exprGroup int) (*cm.Expr, string) {
	b, err := os.ReadFile(path)
	if err != nil {
		ev.Broken("cannot read %s: %v", path, err)
	}
	m := re.FindAllStringSubmatch(string(b), -1)
	if len(m) != 1 {
		ev.Broken("%s: quorum formula matched %d times, want exactly 1", path, len(m))
	}
	e, err := cm.ParseExpr(m[0][exprGroup])
	if err != nil {
		ev.Broken("%s: formula outside recognised subset: %v", path, err)
	}
	vars := e.Vars()
	if len(vars) != 1 || vars[0] != m[0][varGroup] {
		ev.Broken("%s: formula %q must depend exactly on %s, has %v", path, m[0][exprGroup], m[0][varGroup], vars)
	}
	return e, vars[0]
}

// balanced: parentheses of s are balanced and never close below zero (so an outer pair can be stripped).
func balanced(s string) bool {
	d := 0
	for _, c := range s {
		switch c {
		case '(':
			d++
		case ')':
			d--
			if d < 0 {
				return false
			}
		}
	}
	return d == 0
}

func main() {
	r := ev.Start("C07", "exploration")
	sol, solVar := extract(filepath.Join(r.Repo, "ethereum/contracts/Messages.sol"),
		regexp.MustCompile(`function\s+quorum\s*\(\s*uint(?:256)?\s+(\w+)\s*\)[^{]*\{\s*return\s+([^;]+);`), 1, 2)
	ralSrc := filepath.Join(r.Repo, "alephium/contracts/governance.ral")
	// let guardianSize = ...; let quorumSize = <expr over guardianSize>; assert!(quorumSize <= signatureSize
	ral, ralVar := extract(ralSrc, regexp.MustCompile(`let\s+(guardianSize)\s*=[^\n]*\n(?:[^\n]*\n){0,6}?\s*let\s+quorumSize\s*=\s*([^\n]+)\n`), 1, 2)
	r.Set("solidity_formula", sol.String())
	r.Set("ralph_formula", ral.String())

	var xt []int
	if aux := os.Getenv("VERIF_AUX_XQUORUM"); aux != "" {
		out, err := exec.Command(aux).Output()
		var xo struct {
			Quorum []int `json:"quorum"`
			Use    []struct {
				N, S   int
				Queued bool
				Err    string
			} `json:"use"`
		}
		if err != nil || json.Unmarshal(out, &xo) != nil || len(xo.Quorum) != 256 || len(xo.Use) == 0 {
			ev.Broken("explorer quorum table: %v", err)
		}
		xt = xo.Quorum
		// the explorer's USE of the threshold: its real gossip consumer hands a VAA on for persistence exactly
		// when it carries at least floor(2n/3)+1 valid signatures of the set it names
		for _, u := range xo.Use {
			r.Add("explorer_use_cases", 1)
			if want := u.S >= 2*u.N/3+1; u.Queued != want {
				r.Violation("explorer use: the gossip consumer's decision differs from 'at least floor(2n/3)+1 valid signatures of the named set'",
					fmt.Sprintf("n=%d signatures=%d queued=%v want %v (%s)", u.N, u.S, u.Queued, want, u.Err), u)
			}
		}
	} else {
		ev.Broken("explorer-backend aux binary missing")
	}

	type row struct{ N, Go, GoExplorer, Sol, Ral, Want int }
	for n := 0; n <= 255; n++ {
		g := processor.CalculateQuorum(n)
		s, err1 := sol.Eval(map[string]int64{solVar: int64(n)})
		l, err2 := ral.Eval(map[string]int64{ralVar: int64(n)})
		if err1 != nil || err2 != nil {
			r.Violation(fmt.Sprintf("contract-formula-fails n=%d", n), fmt.Sprint(err1, err2), n)
			continue
		}
		want := 2*n/3 + 1
		rw := row{n, g, xt[n], int(s), int(l), want}
		r.Add("evaluations", 1)
		if n == 0 {
			// contracts reject empty sets; the Go value is reported, not judged
			r.Set("n0", rw)
			continue
		}
		r.Nontrivial(fmt.Sprint(n))
		if n%3 == 0 || n == 1 || n == 19 || n == 255 {
			r.Sample(rw)
		}
		bad := ""
		switch {
		case g != want:
			bad = "node CalculateQuorum != floor(2n/3)+1"
		case xt[n] != want:
			bad = "explorer-backend's CalculateQuorum != floor(2n/3)+1"
		case int(s) != want:
			bad = "Messages.sol quorum != floor(2n/3)+1"
		case int(l) != want:
			bad = "governance.ral quorumSize != floor(2n/3)+1"
		case !(3*g > 2*n):
			bad = "threshold does not exceed two thirds of n"
		case g > n:
			bad = "threshold exceeds n"
		case !(3*(2*g-n) > n):
			bad = "two quorums need not share more than a third"
		}
		if bad != "" {
			r.Violation("quorum: "+bad, fmt.Sprintf("%+v", rw), rw)
		}
	}
	// ---- the contracts' USE of their threshold: the gate that rejects a VAA for lack of quorum, extracted from
	// verifyVM (Solidity) and parseAndVerifyVAA (Ralph), evaluated for every set size n = 1..255 and every
	// signature count s = 0..n: rejected for lack of quorum exactly when s < floor(2n/3)+1
	{
		solSrc, _ := os.ReadFile(filepath.Join(r.Repo, "ethereum/contracts/Messages.sol"))
		gm := regexp.MustCompile(`if\s*\(([^{}]+?)\)\s*\{\s*return\s*\(false,\s*"no quorum"\)`).FindAllStringSubmatch(string(solSrc), -1)
		if len(gm) != 1 {
			ev.Broken("Messages.sol: the no-quorum gate matched %d times, want exactly 1", len(gm))
		}
		cond := gm[0][1]
		cond = strings.ReplaceAll(cond, "vm.signatures.length", "s")
		cond = regexp.MustCompile(`quorum\(\s*guardianSet\.keys\.length\s*\)`).ReplaceAllString(cond, "("+strings.ReplaceAll(sol.String(), solVar, "n")+")")
		cond = strings.ReplaceAll(cond, "guardianSet.keys.length", "n")
		ralSrcB, _ := os.ReadFile(ralSrc)
		am := regexp.MustCompile(`assert!\(\s*([^\n,]+?)\s*,\s*ErrorCodes\.InvalidSignatureSize\)`).FindAllStringSubmatch(string(ralSrcB), -1)
		if len(am) != 1 {
			ev.Broken("governance.ral: the signature-size assertion matched %d times, want exactly 1", len(am))
		}
		// the Ralph assertion states what is ACCEPTED (a conjunction of comparisons); the Solidity statement what is
		// REJECTED (a disjunction of comparisons)
		rcond := am[0][1]
		rcond = strings.ReplaceAll(rcond, "quorumSize", "("+strings.ReplaceAll(ral.String(), ralVar, "n")+")")
		rcond = strings.ReplaceAll(rcond, "signatureSize", "s")
		rcond = strings.ReplaceAll(rcond, "guardianSize", "n")
		type cmp struct {
			lhs, rhs *cm.Expr
			op       string
		}
		parse := func(name, c, sep string) []cmp {
			var out []cmp
			for _, part := range strings.Split(c, sep) {
				part = strings.TrimSpace(part)
				for strings.HasPrefix(part, "(") && strings.HasSuffix(part, ")") && balanced(part[1:len(part)-1]) {
					part = strings.TrimSpace(part[1 : len(part)-1])
				}
				var op string
				for _, o := range []string{"<=", ">=", "==", "!=", "<", ">"} {
					if strings.Contains(part, o) {
						op = o
						break
					}
				}
				ps := strings.SplitN(part, op, 2)
				if op == "" || len(ps) != 2 {
					ev.Broken("%s: gate %q outside the recognised subset", name, c)
				}
				lhs, e1 := cm.ParseExpr(ps[0])
				rhs, e2 := cm.ParseExpr(ps[1])
				if e1 != nil || e2 != nil {
					ev.Broken("%s: gate %q outside the recognised subset: %v %v", name, c, e1, e2)
				}
				out = append(out, cmp{lhs, rhs, op})
			}
			return out
		}
		holds := func(name string, c cmp, env map[string]int64) bool {
			a, ea := c.lhs.Eval(env)
			b, eb := c.rhs.Eval(env)
			if ea != nil || eb != nil {
				ev.Broken("%s: gate does not evaluate: %v %v", name, ea, eb)
			}
			return map[string]bool{"<": a < b, "<=": a <= b, ">": a > b, ">=": a >= b, "==": a == b, "!=": a != b}[c.op]
		}
		type gate struct {
			name, text string
			parts      []cmp
			accepts    bool // parts state what is accepted (all must hold); otherwise what is rejected (any)
		}
		gates := []gate{{"Messages.sol verifyVM", cond, parse("Messages.sol verifyVM", cond, "||"), false},
			{"governance.ral parseAndVerifyVAA", rcond, parse("governance.ral parseAndVerifyVAA", rcond, "&&"), true}}
		for _, g := range gates {
			r.Set("gate_"+strings.Fields(g.name)[0], g.text)
			bad := 0
			for n := 1; n <= 255; n++ {
				for sg := 0; sg <= n; sg++ {
					env := map[string]int64{"n": int64(n), "s": int64(sg)}
					rejected := g.accepts
					if g.accepts {
						all := true
						for _, c := range g.parts {
							all = all && holds(g.name, c, env)
						}
						rejected = !all
					} else {
						for _, c := range g.parts {
							rejected = rejected || holds(g.name, c, env)
						}
					}
					want := sg < 2*n/3+1
					r.Add("gate_evaluations", 1)
					if rejected != want && bad < 3 {
						bad++
						r.Violation("quorum gate: "+g.name+" does not reject for lack of quorum exactly when fewer than floor(2n/3)+1 signatures are present", fmt.Sprintf("gate %q: n=%d signatures=%d rejected=%v want %v", g.text, n, sg, rejected, want), map[string]interface{}{"gate": g.text, "n": n, "signatures": sg})
					}
				}
			}
		}
	}

	// ---- the node's USE of the threshold: "a VAA the node considers complete is accepted on chain".
	// Explicit-state search over the real processor handlers (sets in any order, local observation, own
	// loopback, observations by every key of both sets); every VAA the node broadcasts as complete or writes
	// to its store is put to the contracts' own test: the number of its signatures that verify for distinct,
	// ascending members of the guardian set it NAMES must reach the thresholds computed by the formulas
	// extracted from Messages.sol and governance.ral for that set's size.
	w := proch.NewWorld()
	var e0 vaa.Address
	e0[31] = 0x51
	type nodeUse struct {
		name  string
		sets  [][]int
		own   int
		obs   []int
		depth int
	}
	var uses []nodeUse
	for n := 1; n <= 4; n++ {
		for _, own := range []int{0, 1, n - 1} {
			if own >= n || (own == 1 && n <= 2) {
				continue
			}
			d := 7
			if n >= 4 {
				d = 6
			}
			uses = append(uses, nodeUse{fmt.Sprintf("node-use-n%d-own%d", n, own), [][]int{keys.Range(0, n), keys.Range(1, n+1)}, own, keys.Range(0, n+1), d})
		}
	}
	// sets of DIFFERENT sizes (the threshold that counts is the one of the set the VAA names, not of whatever set
	// is current when the last signature arrives): shrinking and growing rotations
	for _, p := range [][2]int{{4, 1}, {4, 2}, {2, 4}, {1, 3}, {3, 2}} {
		uses = append(uses, nodeUse{fmt.Sprintf("node-use-%d-to-%d", p[0], p[1]), [][]int{keys.Range(0, p[0]), keys.Range(0, p[1])}, 0, keys.Range(0, 5), 6})
	}
	uses = append(uses, nodeUse{"node-use-7-to-4", [][]int{keys.Range(0, 7), keys.Range(0, 4)}, 0, []int{1, 2, 3, 6}, 6},
		nodeUse{"node-use-4-to-7", [][]int{keys.Range(0, 4), keys.Range(0, 7)}, 0, []int{1, 2, 3, 6}, 6})
	{
		for _, u := range uses {
			n, own, sets, u := len(u.sets[0]), u.own, u.sets, u
			c := proch.Config{Name: u.name, Sets: sets, OwnKey: own,
				Msgs: []proch.Msg{{Seq: 3, Payload: []byte{7}, Emitter: e0, Chain: 2, Target: 255, CL: 1}}}
			x := &proch.Explorer{R: r, W: w, C: &c, Oracles: map[string]bool{}}
			judge := func(kind string, b []byte, hist []proch.Event) {
				d, err := proch.Decode(b)
				if err != nil || int(d.SetIdx) >= len(sets) {
					r.Violation("node use: "+kind+" VAA does not decode / names an unknown set", fmt.Sprint(err), hist)
					return
				}
				set := keys.Addrs(sets[d.SetIdx]...)
				valid, last := 0, -1
				for _, sg := range d.Sigs {
					a, ok := proch.Recover(d.Digest, sg.Sig[:])
					if ok && int(sg.Idx) < len(set) && int(sg.Idx) > last && a == set[sg.Idx] {
						valid++
						last = int(sg.Idx)
					}
				}
				sq, _ := sol.Eval(map[string]int64{solVar: int64(len(set))})
				rq, _ := ral.Eval(map[string]int64{ralVar: int64(len(set))})
				r.Add("node_use_vaas_judged", 1)
				if int64(valid) < sq || int64(valid) < rq {
					var pretty []string
					for _, e := range hist {
						pretty = append(pretty, e.String())
					}
					r.Violation("node use: a VAA the node considers complete ("+kind+") has fewer valid signatures of the set it names than the contracts' thresholds",
						fmt.Sprintf("n=%d valid=%d solidity=%d ralph=%d history: %v", len(set), valid, sq, rq, pretty), proch.Replay{Config: c, History: hist, Pretty: pretty, Oracle: "C07-node-use"})
				}
			}
			x.OnStep = func(in *proch.Inst, e proch.Event, out proch.Out, hist []proch.Event) {
				for _, b := range out.VAAs {
					judge("broadcast", b, hist)
				}
				for _, b := range in.Node().Store() {
					judge("stored", b, hist)
				}
			}
			menu := func(nd *proch.Node, m *proch.Model, hist []proch.Event) []proch.Event {
				var evs []proch.Event
				for si := range sets {
					if si != m.Cur {
						evs = append(evs, proch.Event{Kind: "set", Set: si})
					}
				}
				if len(nd.Pending) < 2 {
					evs = append(evs, proch.Event{Kind: "msg", M: 0})
				}
				for i := range nd.Pending {
					evs = append(evs, proch.Event{Kind: "lb", LB: i})
				}
				for _, g := range u.obs {
					evs = append(evs, proch.Event{Kind: "obs", G: g, D: 0})
				}
				return evs
			}
			depth := u.depth
			x.BFS(depth, menu, 400000, nil)
			r.Add("states", x.States)
			r.Add("transitions", x.Transitions)
			r.Add("traces_validated_against_impl", x.Builds)
			if n == 3 && own == 0 {
				r.Sample(map[string]interface{}{"node_use_config": c.Name, "depth": depth, "states": x.States, "transitions": x.Transitions})
			}
		}
	}
	// ---- scripted histories the depth-bounded search cannot reach: LARGE sets with the node observing LAST
	// (every other member's observation is delivered before the node's own watcher reports the message), and a
	// rotation between two 19-member sets while the digest is still unknown to the node. The reference model
	// of the publish point (C02's oracle) demands the VAA as soon as floor(2n/3)+1 members incl. the node signed,
	// and the contract thresholds judge what is published.
	for _, n := range []int{4, 13, 19, 20, 29, 30, 31, 64, 100, 255} {
		sets := [][]int{keys.Range(0, n)}
		c := proch.Config{Name: fmt.Sprintf("late-observer-n%d", n), Sets: sets, OwnKey: 0,
			Msgs: []proch.Msg{{Seq: 3, Payload: []byte{7}, Emitter: e0, Chain: 2, Target: 255, CL: 1}}}
		x := &proch.Explorer{R: r, W: w, C: &c, Oracles: map[string]bool{"C02": true}}
		published := 0
		x.OnStep = func(in *proch.Inst, e proch.Event, out proch.Out, hist []proch.Event) { published += len(out.VAAs) }
		hist := []proch.Event{{Kind: "set", Set: 0}}
		for g := 1; g < n; g++ {
			hist = append(hist, proch.Event{Kind: "obs", G: g, D: 0})
		}
		hist = append(hist, proch.Event{Kind: "msg", M: 0}, proch.Event{Kind: "lb", LB: 0})
		x.Run(hist).Close()
		r.Add("transitions", x.Transitions)
		r.Add("late_observer_histories", 1)
		if published != 1 {
			r.Violation("node use: all members signed and the node observed last, but the node did not publish exactly one VAA", fmt.Sprintf("n=%d published=%d", n, published), map[string]interface{}{"n": n, "history": "Set, Obs(g=1..n-1), Msg, LB"})
		}
	}
	{
		sets := [][]int{keys.Range(0, 19), keys.Range(19, 38)}
		c := proch.Config{Name: "rotation-19-to-19-digest-unknown", Sets: sets, OwnKey: 19,
			Msgs: []proch.Msg{{Seq: 3, Payload: []byte{7}, Emitter: e0, Chain: 2, Target: 255, CL: 1}}}
		x := &proch.Explorer{R: r, W: w, C: &c, Oracles: map[string]bool{"C02": true}}
		published := 0
		x.OnStep = func(in *proch.Inst, e proch.Event, out proch.Out, hist []proch.Event) { published += len(out.VAAs) }
		hist := []proch.Event{{Kind: "set", Set: 0}}
		for g := 0; g < 12; g++ {
			hist = append(hist, proch.Event{Kind: "obs", G: g, D: 0})
		}
		hist = append(hist, proch.Event{Kind: "set", Set: 1})
		for g := 20; g < 32; g++ {
			hist = append(hist, proch.Event{Kind: "obs", G: g, D: 0})
		}
		hist = append(hist, proch.Event{Kind: "msg", M: 0}, proch.Event{Kind: "lb", LB: 0})
		x.Run(hist).Close()
		r.Add("transitions", x.Transitions)
		r.Add("late_observer_histories", 1)
		if published != 1 {
			r.Violation("node use: after a rotation between two 19-member sets a quorum of the new set signed, but the node did not publish exactly one VAA", fmt.Sprintf("published=%d", published), map[string]interface{}{"history": "Set(0), 12 x Obs(old members), Set(1), 12 x Obs(new members), Msg, LB"})
		}
	}
	r.Set("rule", "every n in 0..255 once; n>=1 judged (non-trivial), n=0 reported only; Go (tree), Go (explorer pin), Solidity and Ralph formulas extracted from the working tree's contract sources; node use: explicit-state BFS (sets of 1..4, depth 6-7, state-key pruning) over the real processor with every complete VAA judged by the extracted contract thresholds")
	r.Finish()
}
