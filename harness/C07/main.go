// C07: quorum threshold, exhaustively for n = 0..255, across the Go function (tree copy and the
// copy pinned by the explorer backend) and the formulas extracted from Messages.sol and governance.ral.
package main

import (
	"encoding/json"
	"fmt"
	"os"
	"os/exec"
	"path/filepath"
	"regexp"

	"github.com/alephium/wormhole-fork/node/pkg/processor"
	"github.com/alephium/wormhole-fork/node/verifh/cm"
	"github.com/alephium/wormhole-fork/node/verifh/ev"
)

func extract(path string, re *regexp.Regexp, varGroup, exprGroup int) (*cm.Expr, string) {
	b, err := os.ReadFile(path)
	if err != nil {
		ev.Broken("cannot read %s: %v", path, err)
	}
	m := re.FindAllStringSubmatch(string(b), -1)
	if len(m) != 1 {
		ev.Broken("%s: quorum formula matched %d times, want exactly 1", path, len(m))
	}
	e, err := cm.ParseExpr(m[0][exprGroup])
	if err != nil {
		ev.Broken("%s: formula outside recognised subset: %v", path, err)
	}
	vars := e.Vars()
	if len(vars) != 1 || vars[0] != m[0][varGroup] {
		ev.Broken("%s: formula %q must depend exactly on %s, has %v", path, m[0][exprGroup], m[0][varGroup], vars)
	}
	return e, vars[0]
}

func main() {
	r := ev.Start("C07", "exploration")
	sol, solVar := extract(filepath.Join(r.Repo, "ethereum/contracts/Messages.sol"),
		regexp.MustCompile(`function\s+quorum\s*\(\s*uint(?:256)?\s+(\w+)\s*\)[^{]*\{\s*return\s+([^;]+);`), 1, 2)
	ralSrc := filepath.Join(r.Repo, "alephium/contracts/governance.ral")
	// let guardianSize = ...; let quorumSize = <expr over guardianSize>; assert!(quorumSize <= signatureSize
	ral, ralVar := extract(ralSrc, regexp.MustCompile(`let\s+(guardianSize)\s*=[^\n]*\n(?:[^\n]*\n){0,6}?\s*let\s+quorumSize\s*=\s*([^\n]+)\n\s*assert!\(quorumSize\s*<=\s*signatureSize`), 1, 2)
	r.Set("solidity_formula", sol.String())
	r.Set("ralph_formula", ral.String())

	var xt []int
	if aux := os.Getenv("VERIF_AUX_XQUORUM"); aux != "" {
		out, err := exec.Command(aux).Output()
		if err != nil || json.Unmarshal(out, &xt) != nil || len(xt) != 256 {
			ev.Broken("explorer quorum table: %v", err)
		}
	} else {
		ev.Broken("explorer-backend aux binary missing")
	}

	type row struct{ N, Go, GoExplorer, Sol, Ral, Want int }
	for n := 0; n <= 255; n++ {
		g := processor.CalculateQuorum(n)
		s, err1 := sol.Eval(map[string]int64{solVar: int64(n)})
		l, err2 := ral.Eval(map[string]int64{ralVar: int64(n)})
		if err1 != nil || err2 != nil {
			r.Violation(fmt.Sprintf("contract-formula-fails n=%d", n), fmt.Sprint(err1, err2), n)
			continue
		}
		want := 2*n/3 + 1
		rw := row{n, g, xt[n], int(s), int(l), want}
		r.Add("evaluations", 1)
		if n == 0 {
			// contracts reject empty sets; the Go value is reported, not judged
			r.Set("n0", rw)
			continue
		}
		r.Nontrivial(fmt.Sprint(n))
		if n%3 == 0 || n == 1 || n == 19 || n == 255 {
			r.Sample(rw)
		}
		bad := ""
		switch {
		case g != want:
			bad = "node CalculateQuorum != floor(2n/3)+1"
		case xt[n] != want:
			bad = "explorer-backend's CalculateQuorum != floor(2n/3)+1"
		case int(s) != want:
			bad = "Messages.sol quorum != floor(2n/3)+1"
		case int(l) != want:
			bad = "governance.ral quorumSize != floor(2n/3)+1"
		case !(3*g > 2*n):
			bad = "threshold does not exceed two thirds of n"
		case g > n:
			bad = "threshold exceeds n"
		case !(3*(2*g-n) > n):
			bad = "two quorums need not share more than a third"
		}
		if bad != "" {
			r.Violation("quorum: "+bad, fmt.Sprintf("%+v", rw), rw)
		}
	}
	r.Set("rule", "every n in 0..255 once; n>=1 judged (non-trivial), n=0 reported only; Go (tree), Go (explorer pin), Solidity and Ralph formulas extracted from the working tree's contract sources")
	r.Finish()
}
