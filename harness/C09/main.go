// C09: every final Alephium token-bridge message is eventually observed; hostile events are harmless.
// Exhaustive enumeration of event mixes (well-formed, malformed, foreign-sender, attestation-shaped
// events naming contracts whose metadata calls fail or return unexpected shapes) x page sizes x
// placements of new events between the count request and the page requests x count moving backwards
// x extra ticks, run against the real Alephium watcher (Run under a real supervisor, real client +
// SDK) on a simulated node. Safety is judged in every step (no crash, no exit caused by a hostile
// event, no spinning on the node API); liveness at a horizon: after a fair closing schedule every
// well-formed token-bridge message in a main-chain block has been forwarded exactly once by polling.
package main

import (
	"encoding/hex"
	"bytes"
	"encoding/json"
	"fmt"
	"math/big"
	"os"
	"strings"
	"time"

	"github.com/alephium/wormhole-fork/node/verifh/alphh"
	"github.com/alephium/wormhole-fork/node/verifh/ev"
)

var r *ev.Run

const (
	tokOK   = "4444444444444444444444444444444444444444444444444444444444444400"
	tokBase = "55555555555555555555555555555555555555555555555555555555555555"
)

type scenario struct {
	Name     string       `json:"name"`
	PageSize int          `json:"page_size"`
	Steps    []alphh.Step `json:"steps"`
	// Fresh: the governance contract has not emitted anything when the watcher starts; the node answers the
	// event-count request with 404 until the first event exists (as a real full node does)
	Fresh bool `json:"fresh_contract,omitempty"`
}

// hostile kinds -> message + token answer to install
var tokenKinds = []string{"second-failed", "third-failed", "all-failed", "two-results", "wrong-arity", "wrong-type", "api-error", "unknown-contract", "ok-but-mismatch",
	// attestation-shaped events that name the SAME token as the genuine attestation of the scenario, with other
	// claimed metadata (anyone can publish that on the governance stream), and a bridge-sent attestation whose
	// symbol is the contract's symbol with a zero byte in the middle (another text, same letters)
	"same-token-other-metadata", "same-token-interior-nul"}

func legit(i int, kind string) alphh.Msg {
	m := alphh.Msg{Tag: kind, Sender: alphh.BridgeID, Contract: alphh.GovID, Target: "2", Seq: fmt.Sprint(100 + i), Nonce: "00000001", Payload: alphh.TransferPayload(byte(i + 1)), CL: "1", Tx: alphh.TxID(10 + i)}
	switch kind {
	case "legit-max":
		m.Target, m.CL = "65535", "255"
	case "legit-attest":
		m.Payload, m.Target = alphh.AttestPayload(tokOK, 8, "SYM", "Token name"), "0"
	}
	return m
}

func hostile(i int, kind string) (alphh.Msg, map[string]alphh.TokenAnswer) {
	m := alphh.Msg{Tag: "hostile:" + kind, Sender: alphh.OtherID, Contract: alphh.GovID, Target: "2", Seq: fmt.Sprint(900 + i), Nonce: "00000002", Payload: "0199", CL: "0", Tx: alphh.TxID(50 + i)}
	toks := map[string]alphh.TokenAnswer{}
	switch kind {
	case "foreign-sender":
	case "five-fields":
		m.NFields = 5
	case "seven-fields":
		m.NFields = 7
	case "nonce-3-bytes":
		m.Nonce = "000001"
	case "target-65536":
		m.Target = "65536"
	case "level-256":
		m.CL = "256"
	case "non-numeric":
		m.Seq = "abc"
	case "sender-31-bytes":
		m.Sender = alphh.OtherID[:62]
	case "bridge-sender-malformed": // claims the token bridge as caller but cannot be a bridge message
		m.Sender, m.CL = alphh.BridgeID, "256"
	case "event-index-1":
		m.Index = 1
	case "empty-payload": // six well-formed fields, but the payload ByteVec is empty
		m.Payload = ""
	case "payload-odd-hex":
		m.Payload = "019"
	case "attest-tag-only": // the attestation tag and nothing behind it, also when it claims the token bridge as caller
		m.Payload, m.Target = "02", "0"
		if i%2 == 1 {
			m.Sender = alphh.BridgeID
		}
	case "transfer-tag-only":
		m.Payload = "01"
	default: // attestation-shaped, naming a contract whose metadata calls misbehave
		tid := tokBase + fmt.Sprintf("%02x", i)
		m.Payload, m.Target = alphh.AttestPayload(tid, 8, "EVIL", "Evil token"), "0"
		switch kind {
		case "same-token-other-metadata":
			m.Payload = alphh.AttestPayload(tokOK, 9, "SYM", "Token name")
			if i%2 == 1 {
				m.Sender = alphh.BridgeID
			}
			return m, toks
		case "same-token-interior-nul":
			m.Payload = alphh.AttestPayload(tokOK, 8, "SY\x00M", "Token name")
			m.Sender = alphh.BridgeID
			return m, toks
		}
		switch kind {
		case "unknown-contract":
		case "ok-but-mismatch":
			toks[alphh.AddressOf(tid)] = alphh.TokenAnswer{Kind: "ok", Symbol: "OTHER", Name: "Evil token", Decimals: 8}
		default:
			toks[alphh.AddressOf(tid)] = alphh.TokenAnswer{Kind: kind, Symbol: "EVIL", Name: "Evil token", Decimals: 8}
		}
		if i%2 == 1 {
			m.Sender = alphh.BridgeID // ... even when it claims the token bridge as caller
		}
	}
	return m, toks
}

var hostileKinds = append([]string{"foreign-sender", "five-fields", "seven-fields", "nonce-3-bytes", "target-65536", "level-256", "non-numeric", "sender-31-bytes", "bridge-sender-malformed", "event-index-1", "empty-payload", "payload-odd-hex", "attest-tag-only", "transfer-tag-only"}, tokenKinds...)

// wellFormed is the reference reading of "well-formed token-bridge message".
func wellFormed(m alphh.Msg, toks map[string]alphh.TokenAnswer) bool {
	if m.Sender != alphh.BridgeID || m.Contract != alphh.GovID || m.Index != 0 || (m.NFields != 0 && m.NFields != 6) || len(m.Nonce) != 8 {
		return false
	}
	fit := func(s string, max uint64) bool {
		n, ok := new(big.Int).SetString(s, 10)
		return ok && n.Sign() >= 0 && n.IsUint64() && n.Uint64() <= max
	}
	if !fit(m.Target, 65535) || !fit(m.Seq, 1<<63) || !fit(m.CL, 255) {
		return false
	}
	if strings.HasPrefix(m.Payload, "02") { // attestation: must equal what the token contract reports
		if len(m.Payload) != 200 {
			return false
		}
		a, ok := toks[alphh.AddressOf(m.Payload[2:66])]
		raw, err := hex.DecodeString(m.Payload)
		if err != nil || !ok || a.Kind != "ok" {
			return false
		}
		// what the payload claims: decimals, symbol and name (32 bytes each, zero padding at the ends only)
		sym, nam := string(bytes.Trim(raw[36:68], "\x00")), string(bytes.Trim(raw[68:100], "\x00"))
		return a.Symbol == sym && a.Name == nam && a.Decimals == int(raw[35])
	}
	return true
}

type built struct {
	sc      scenario
	toks    map[string]alphh.TokenAnswer
	msgs    []alphh.Msg
	hostile string
	expect  map[string]bool // optional: sequence -> must be forwarded (overrides wellFormed, for scenarios in which metadata changes)
}

func scenarios(r *ev.Run) []built {
	var out []built
	maxN := r.Pick(3, 4)
	legitKinds := []string{"legit", "legit-max", "legit-attest"}
	for n := 1; n <= maxN; n++ {
		for hp := -1; hp < n; hp++ { // position of the hostile event (-1: none)
			hks := hostileKinds
			if hp < 0 {
				hks = []string{"none"}
			}
			for _, hk := range hks {
				for _, ps := range []int{1, 2, 3, 100} {
					if ps != 100 && ps > n {
						continue
					}
					for _, variant := range []string{"plain", "last-arrives-between-count-and-page", "count-lags-by-one", "two-blocks", "one-transaction"} {
						if (variant == "two-blocks" || variant == "one-transaction") && n < 2 {
							continue
						}
						toks := map[string]alphh.TokenAnswer{alphh.AddressOf(tokOK): {Kind: "ok", Symbol: "SYM", Name: "Token name", Decimals: 8}}
						var msgs []alphh.Msg
						var steps []alphh.Step
						if variant == "count-lags-by-one" {
							steps = append(steps, alphh.Step{Op: "countlag", N: 1})
						}
						for i := 0; i < n; i++ {
							var m alphh.Msg
							if i == hp {
								var t map[string]alphh.TokenAnswer
								m, t = hostile(i, hk)
								for k, v := range t {
									toks[k] = v
								}
							} else {
								m = legit(i, legitKinds[(i+n)%len(legitKinds)])
							}
							if variant == "one-transaction" {
								// all events are emitted by ONE transaction (a script calling the bridge several times)
								m.Tx = alphh.TxID(77)
							}
							msgs = append(msgs, m)
							mm := m
							blk := 1
							if variant == "two-blocks" && i >= n/2 {
								blk = 2
							}
							op := "emit"
							if variant == "last-arrives-between-count-and-page" && i == n-1 && n > 1 {
								op = "arm-emit"
							}
							steps = append(steps, alphh.Step{Op: op, Msg: &mm, Block: blk, Height: int32(10 + blk)})
						}
						if variant == "last-arrives-between-count-and-page" && n == 1 {
							continue
						}
						steps = append(steps, alphh.Step{Op: "evtick"})
						if variant == "count-lags-by-one" {
							steps = append(steps, alphh.Step{Op: "countlag", N: 0})
						}
						out = append(out, built{scenario{Name: fmt.Sprintf("n%d/hostile@%d:%s/page%d/%s", n, hp, hk, ps, variant), PageSize: ps, Steps: steps}, toks, msgs, hk, nil})
						if hp < 0 && variant == "plain" {
							// the same history on a freshly deployed governance contract (empty event log at start-up)
							out = append(out, built{scenario{Name: fmt.Sprintf("n%d/fresh-contract/page%d", n, ps), PageSize: ps, Steps: steps, Fresh: true}, toks, msgs, hk, nil})
						}
					}
				}
			}
		}
	}
	// token metadata that changes over time: a token is attested, its contract then reports other metadata,
	// and it is attested again with the new values (the re-attestation flow). Every attestation equals what
	// the contract reports at that time, so every one must be forwarded - also when a foreign
	// attestation-shaped event, a re-observation request or a watcher restart touched the token before.
	{
		tokU := tokBase + "aa"
		att := func(i int, tok string, dec int, sym, name, sender string) alphh.Msg {
			m := legit(i, "legit")
			m.Payload, m.Target, m.Sender = alphh.AttestPayload(tok, dec, sym, name), "0", sender
			return m
		}
		for vi, pre := range [][]alphh.Step{nil, {{Op: "restart"}}, {{Op: "reobs", Tx: alphh.TxID(10)}}, {{Op: "fault", EP: "count"}, {Op: "evtick"}, {Op: "restart"}}} {
			t0, u0 := att(0, tokOK, 8, "SYM", "Token name", alphh.BridgeID), att(1, tokU, 6, "UUU", "U token", alphh.OtherID) // u0: foreign event naming token U
			t1, u1 := att(2, tokOK, 9, "SYM2", "Token name 2", alphh.BridgeID), att(3, tokU, 7, "UUU2", "U token 2", alphh.BridgeID)
			tr := legit(4, "legit")
			toks := map[string]alphh.TokenAnswer{alphh.AddressOf(tokOK): {Kind: "ok", Symbol: "SYM", Name: "Token name", Decimals: 8}, alphh.AddressOf(tokU): {Kind: "ok", Symbol: "UUU", Name: "U token", Decimals: 6}}
			steps := []alphh.Step{{Op: "emit", Msg: &u0, Block: 1, Height: 11}, {Op: "emit", Msg: &t0, Block: 1, Height: 11}, {Op: "evtick"}, {Op: "height+", Height: 3}, {Op: "clock", Sec: 60}, {Op: "htick"}}
			steps = append(steps, pre...)
			steps = append(steps, alphh.Step{Op: "settoken", Tx: tokOK, Sym: "SYM2", Nam: "Token name 2", N: 9}, alphh.Step{Op: "settoken", Tx: tokU, Sym: "UUU2", Nam: "U token 2", N: 7},
				alphh.Step{Op: "emit", Msg: &t1, Block: 2, Height: 15}, alphh.Step{Op: "emit", Msg: &u1, Block: 2, Height: 15}, alphh.Step{Op: "emit", Msg: &tr, Block: 2, Height: 15}, alphh.Step{Op: "evtick"})
			exp := map[string]bool{t0.Seq: true, u0.Seq: false, t1.Seq: true, u1.Seq: true, tr.Seq: true}
			if vi == 3 {
				continue // a watcher that died between fetch and confirmation loses its pending set: not judged here
			}
			out = append(out, built{scenario{Name: fmt.Sprintf("metadata-change/variant%d", vi), PageSize: 2, Steps: steps}, toks, []alphh.Msg{u0, t0, t1, u1, tr}, "none", exp})
		}
	}
	// slow answers: a reaction of one watcher goroutine is suspended inside a node call while another
	// goroutine runs (response completion order is owned by the harness)
	for _, ep := range []string{"main-chain", "header", "height", "page", "count", "multicall"} {
		for _, second := range []string{"legit", "legit-attest"} {
			a, b := legit(0, "legit"), legit(1, second)
			toks := map[string]alphh.TokenAnswer{alphh.AddressOf(tokOK): {Kind: "ok", Symbol: "SYM", Name: "Token name", Decimals: 8}}
			steps := []alphh.Step{{Op: "emit", Msg: &a, Block: 1, Height: 11}, {Op: "evtick"}, {Op: "height+", Height: 5}, {Op: "clock", Sec: 100},
				{Op: "hold", EP: ep}, {Op: "htick"}, {Op: "emit", Msg: &b, Block: 2, Height: 17}, {Op: "evtick"}, {Op: "release", EP: ep}}
			out = append(out, built{scenario{Name: "slow-" + ep + "/" + second, PageSize: 100, Steps: steps}, toks, []alphh.Msg{a, b}, "none", nil})
			// the other order: the event tick is suspended, the height tick runs
			steps2 := []alphh.Step{{Op: "emit", Msg: &a, Block: 1, Height: 11}, {Op: "evtick"}, {Op: "height+", Height: 5}, {Op: "clock", Sec: 100},
				{Op: "emit", Msg: &b, Block: 2, Height: 17}, {Op: "hold", EP: ep}, {Op: "evtick"}, {Op: "htick"}, {Op: "release", EP: ep}}
			out = append(out, built{scenario{Name: "slow-" + ep + "/ev-first/" + second, PageSize: 100, Steps: steps2}, toks, []alphh.Msg{a, b}, "none", nil})
		}
	}
	return out
}

var closing = []alphh.Step{{Op: "evtick"}, {Op: "htick"}, {Op: "height+", Height: 300}, {Op: "clock", Sec: 6000}, {Op: "htick"}, {Op: "evtick"}, {Op: "htick"}, {Op: "htick"}}

var executions, stimuli, curItem int

func run(b built, steps []alphh.Step, check bool) string {
	executions++
	alphh.FreshContract404 = b.sc.Fresh
	w := alphh.NewWorld(false, 10, b.sc.PageSize)
	alphh.FreshContract404 = false
	defer w.Close()
	for k, v := range b.toks {
		w.Sim.Tokens[k] = v
	}
	got := map[string]int{}
	all := append(append([]alphh.Step{}, steps...), closing...)
	for i, s := range all {
		stimuli++
		ev.Journal(map[string]interface{}{"scenario": b.sc.Name, "page_size": b.sc.PageSize, "tokens": b.toks, "steps": all[:i+1], "resume": curItem + 1})
		for _, f := range w.Apply(s) {
			if f.Path == "polling" {
				got[fmt.Sprint(f.MP.Sequence)]++
			}
			if check && f.Path == "polling" {
				if why := w.Judge(f); why != "" {
					viol(b, all[:i+1], "C09 forwarded message fails the finality/origin conditions: "+why, "")
				}
			}
		}
		if !check {
			continue
		}
		if len(w.Spins) > 0 {
			viol(b, all[:i+1], "C09 watcher spins on the node API (more than 300 identical requests in one step)", w.Spins[0])
			return "spin"
		}
		if len(w.Died) > 0 {
			viol(b, all[:i+1], "C09 watcher exits (and is restarted from the current event count) because of "+causeOf(b, w.Died[0]), w.Died[0])
			// keep going: the supervisor restarts it, then liveness is judged
			w.Died = nil
			w.Apply(alphh.Step{Op: "restart"})
		}
	}
	if !check {
		return fmt.Sprint(got)
	}
	// liveness at the horizon
	for _, m := range b.msgs {
		wf := wellFormed(m, b.toks)
		if v, ok := b.expect[m.Seq]; ok {
			wf = v
		}
		n := got[m.Seq]
		switch {
		case wf && n == 0:
			viol(b, all, "C09 a well-formed token-bridge message in a main-chain block was never forwarded ("+relation(b, m)+")", "message "+m.Tag+" seq "+m.Seq)
		case wf && n > 1:
			viol(b, all, "C09 a message was forwarded more than once by the polling path", fmt.Sprintf("seq %s x%d", m.Seq, n))
		case !wf && n > 0:
			viol(b, all, "C09 a malformed or foreign event was forwarded", m.Tag)
		}
	}
	return fmt.Sprint(got)
}

func relation(b built, m alphh.Msg) string {
	if b.hostile == "none" {
		return "no hostile event involved"
	}
	return "it shared a page or pending set with a hostile event or was fetched after one"
}

func causeOf(b built, err string) string {
	if b.hostile == "none" {
		return "a well-formed event stream: " + short(err)
	}
	return "a hostile event (" + hostileClass(b.hostile) + "): " + short(err)
}

func hostileClass(k string) string {
	for _, t := range tokenKinds {
		if t == k {
			return "attestation-shaped, metadata answer " + k
		}
	}
	return k
}

func short(s string) string {
	if len(s) > 60 {
		return s[:60]
	}
	return s
}

func viol(b built, steps []alphh.Step, key, what string) {
	var pretty []string
	for _, s := range steps {
		pretty = append(pretty, s.String())
	}
	r.Violation(key, what+"  ["+b.sc.Name+"]  history: "+strings.Join(pretty, " "), map[string]interface{}{"scenario": b.sc.Name, "page_size": b.sc.PageSize, "tokens": b.toks, "steps": steps})
}

func main() {
	r = ev.Start("C09", "model_checking")
	if len(os.Args) > 2 && os.Args[1] == "--replay" {
		b, _ := os.ReadFile(os.Args[2])
		var art struct {
			Replay struct {
				Scenario string                       `json:"scenario"`
				PageSize int                          `json:"page_size"`
				Tokens   map[string]alphh.TokenAnswer `json:"tokens"`
				Steps    []alphh.Step                 `json:"steps"`
			} `json:"replay"`
		}
		if json.Unmarshal(b, &art) != nil {
			ev.Broken("bad artefact")
		}
		bt := built{sc: scenario{Name: art.Replay.Scenario, PageSize: art.Replay.PageSize}, toks: art.Replay.Tokens}
		for _, s := range art.Replay.Steps {
			if s.Msg != nil {
				bt.msgs = append(bt.msgs, *s.Msg)
			}
		}
		fmt.Println(run(bt, art.Replay.Steps, true), r.Violations(), "violations")
		if r.Violations() > 0 {
			os.Exit(1)
		}
		os.Exit(0)
	}
	scs := scenarios(r)
	si, sn, worker := ev.Shard()
	if !worker {
		r.Set("scenarios", len(scs))
		r.Fork(0, nil, r.CrashViolation)
		r.Set("rule", "states = executions of the real watcher, transitions = stimuli applied; histories are not merged; every scenario of the enumeration (and every single insertion of an extra event/height tick) is run in full with the fair closing schedule appended")
		r.Assume("'well-formed' is judged by a reference written from the VAA format (field ranges) and, for attestations, equality with the token contract's answers")
		r.Assume("one stimulus at a time; a panic on a watcher goroutine kills the worker process and is attributed to the journalled history")
		r.Finish()
		return
	}
	t0 := time.Now()
	for i, b := range scs {
		if i%sn != si || i < ev.Resume() {
			continue
		}
		curItem = i
		if i == si {
			if a, c := run(b, b.sc.Steps, false), run(b, b.sc.Steps, false); a != c {
				ev.Broken("determinism self-test failed: %s vs %s", a, c)
			}
		}
		res := run(b, b.sc.Steps, true)
		if i < 3*sn && i%sn == si && i/sn < 1 {
			r.Sample(map[string]interface{}{"scenario": b.sc.Name, "forwarded(seq:count)": res})
		}
		// one extra tick inserted anywhere (a timer landing between two chain events)
		if r.Thorough() || i%4 == 0 {
			for pos := 0; pos <= len(b.sc.Steps); pos++ {
				for _, it := range []alphh.Step{{Op: "evtick"}, {Op: "htick"}} {
					h := append(append(append([]alphh.Step{}, b.sc.Steps[:pos]...), it), b.sc.Steps[pos:]...)
					run(b, h, true)
				}
			}
		}
	}
	r.Add("states", executions)
	r.Add("transitions", stimuli)
	r.Add("traces_validated_against_impl", executions)
	if os.Getenv("VERIF_VERBOSE") != "" {
		fmt.Fprintf(os.Stderr, "shard %d: %d executions %d stimuli %.1fs\n", si, executions, stimuli, time.Since(t0).Seconds())
	}
	r.Finish()
}
