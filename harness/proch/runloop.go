package proch

import (
	"context"
	"runtime"

	"github.com/alephium/wormhole-fork/node/pkg/common"
	"github.com/alephium/wormhole-fork/node/pkg/processor"
	gossipv1 "github.com/alephium/wormhole-fork/node/pkg/proto/gossip/v1"
	"github.com/alephium/wormhole-fork/node/verifh/ev"
	"github.com/alephium/wormhole-fork/node/verifh/quiesce"
	"github.com/alephium/wormhole-fork/node/verifh/vtime"
)

// RunNode drives the same processor through its REAL Run goroutine: every event is delivered by a
// rendezvous on the real input channel (or by firing the real cleanup ticker on the virtual clock),
// followed by quiescence. Own-signature loopbacks are consumed by Run itself, immediately after the
// local observation, as in production.
type RunNode struct {
	*Node
	cancel context.CancelFunc
	done   chan error
}

func (w *World) NewRunNode(ownKey int) *RunNode {
	n := w.NewNode(ownKey, 50)
	ctx, cancel := context.WithCancel(w.Ctx)
	rn := &RunNode{Node: n, cancel: cancel, done: make(chan error, 1)}
	go func() { rn.done <- n.P.Run(ctx) }()
	rn.quiesce()
	return rn
}

func runIgnore(g quiesce.Goroutine) bool {
	return !(g.Has("pkg/processor.") || g.Has("verifh/vtime."))
}

func (rn *RunNode) quiesce() {
	for spins := 0; ; spins++ {
		gs, ok := quiesce.Wait(quiesce.Options{Ignore: runIgnore, Activity: vtime.Activity})
		if !ok {
			ev.Broken("processor Run loop does not become quiescent")
		}
		// a handler that is parked INSIDE a store call is waiting for the store's own goroutines (which are not
		// goroutines of interest): the reaction is not over, whatever it does after the store is still to come
		inStore := false
		for _, g := range gs {
			if g.Has("pkg/processor.") && (g.Has("pkg/db.") || g.Has("badger")) {
				inStore = true
			}
		}
		if !inStore {
			return
		}
		if spins > 2_000_000 {
			ev.Broken("processor Run loop stays inside a store call")
		}
		runtime.Gosched()
	}
}

// Deliver hands one event to the Run loop and returns what it produced.
func (rn *RunNode) Deliver(e interface{}) (out Out) {
	switch x := e.(type) {
	case *common.GuardianSet:
		rn.SetC <- x
	case *common.MessagePublication:
		rn.LockC <- x
	case *gossipv1.SignedObservation:
		rn.ObsvC <- x
	case *gossipv1.SignedVAAWithQuorum:
		rn.SignedInC <- x
	case processor.VerifInject:
		rn.InjectC <- x.V
	case processor.VerifTick:
		for _, w := range vtime.Find("ticker", "Processor") {
			w.Fire()
		}
	default:
		panic("verif: unknown event type for the Run loop")
	}
	rn.quiesce()
	rn.drain(&out)
	return out
}

// Elapse lets d of virtual time pass in the Run loop: the clock is advanced and whatever timers or tickers the
// processor has armed and that are due by then fire (the harness does not decide which); then quiescence.
func (rn *RunNode) Elapse(d vtime.Duration) (out Out) {
	vtime.Advance(d)
	vtime.FireDue("rocessor")
	rn.quiesce()
	rn.drain(&out)
	return out
}

func (rn *RunNode) Close() {
	rn.cancel()
	<-rn.done
	rn.Node.Close()
}
