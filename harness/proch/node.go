// Package proch binds the real guardian Processor (handlers, aggregation state, store) to the
// explorers: one handler invocation is one atomic transition, exactly as in the single-goroutine
// Run loop. Shared by the C01, C02, C13 and C14 harnesses.
package proch

import (
	"context"
	"crypto/ecdsa"
	"fmt"
	"runtime"
	"runtime/debug"
	"strings"
	"time"

	"github.com/alephium/wormhole-fork/node/pkg/common"
	"github.com/alephium/wormhole-fork/node/pkg/db"
	"github.com/alephium/wormhole-fork/node/pkg/ecdsasigner"
	"github.com/alephium/wormhole-fork/node/pkg/notify/discord"
	"github.com/alephium/wormhole-fork/node/pkg/processor"
	gossipv1 "github.com/alephium/wormhole-fork/node/pkg/proto/gossip/v1"
	"github.com/alephium/wormhole-fork/node/pkg/reporter"
	"github.com/alephium/wormhole-fork/node/pkg/supervisor"
	"github.com/alephium/wormhole-fork/node/pkg/vaa"
	"github.com/alephium/wormhole-fork/node/verifh/ev"
	"github.com/alephium/wormhole-fork/node/verifh/keys"
	"github.com/alephium/wormhole-fork/node/verifh/vtime"
	"go.uber.org/zap"
	"google.golang.org/protobuf/proto"
)

// World holds what is shared by all executions of one worker process: a supervisor context (the
// handlers call supervisor.Logger(ctx)) and one in-memory store that is wiped between executions.
type World struct {
	Ctx    context.Context
	Cancel context.CancelFunc
	DB     *db.Database
	nodes  int
	// Keys are the store keys an execution can touch (ids of the configured messages); the store
	// view and the wipe between executions use point operations on them. A full scan for any other
	// key is done periodically (FullScan).
	Keys []string
	// KMSPath: nodes created from now on sign through the Cloud-KMS hand-over (DER -> parseSignature -> appendV)
	KMSPath bool
	// OfflineNotifier: nodes created from now on have a configured Discord notifier (its HTTP driver refuses every
	// request), so that the branches behind `p.notifier != nil` run
	OfflineNotifier bool
}

func NewWorld() *World {
	root, cancel := context.WithCancel(context.Background())
	ctxC := make(chan context.Context, 1)
	supervisor.New(root, zap.NewNop(), func(ctx context.Context) error {
		supervisor.Signal(ctx, supervisor.SignalHealthy)
		ctxC <- ctx
		<-ctx.Done()
		return ctx.Err()
	})
	d, err := db.VerifOpenInMemory()
	if err != nil {
		ev.Broken("in-memory store: %v", err)
	}
	return &World{Ctx: <-ctxC, Cancel: cancel, DB: d}
}

var (
	GovChain = vaa.ChainID(1)
	GovAddr  = vaa.Address{0, 0, 0, 0, 0, 0, 0, 0, 0, 0, 0, 0, 0, 0, 0, 0, 0, 0, 0, 0, 0, 0, 0, 0, 0, 0, 0, 0, 0, 0, 0, 4}
	T0       = time.Unix(1_700_000_000, 0)
)

// Node is one fresh Processor with harness-owned channels.
type Node struct {
	W        *World
	P        *processor.Processor
	SendC    chan []byte
	ObsvC    chan *gossipv1.SignedObservation
	ObsvReqC chan *gossipv1.ObservationRequest
	GST      *common.GuardianSetState
	quorumC  chan *vaa.VAA
	unsub    func()
	OwnKey   int
	held [][]byte // StepFullSend: the handler's own messages taken off the queue together with the fillers
	// DB is the store this node uses: the world's shared store, or a private instance (fault scenarios)
	DB       *db.Database
	private  bool
	DBClosed bool
	// Loopbacks the node has sent to itself and that the harness has not delivered yet.
	Pending []*gossipv1.SignedObservation
	// input channels of the real Run loop (used by RunNode only)
	LockC     chan *common.MessagePublication
	SetC      chan *common.GuardianSet
	InjectC   chan *vaa.VAA
	SignedInC chan *gossipv1.SignedVAAWithQuorum
}

// Out is everything observable that one transition produced.
type Out struct {
	Obs      []*gossipv1.SignedObservation // SignedObservation gossip messages broadcast
	ObsRaw   [][]byte
	VAAs     [][]byte // SignedVAAWithQuorum envelopes broadcast (VAA bytes)
	Other    int      // any other gossip message
	Reqs     []*gossipv1.ObservationRequest
	Quorum   []*vaa.VAA // AttestationEventReporter VAAQuorum events
	Panic    interface{}
	Stack    string
	Loopback int // loopbacks captured in this step
	Blocked  bool // StepFullQueue: the handler was parked in a channel send
	LostLoopback int // StepFullObsv: own observations that never arrived on the node's inbound queue
}

// ShortScalarSeqs searches message sequence numbers (same fixture otherwise) whose deterministic signature by
// key has an r, respectively an s, that is shorter than 32 bytes (leading zero byte): the encodings in which
// the DER form and the fixed-width form differ. About one digest in 128 each.
func ShortScalarSeqs(key int, mk func(seq uint64) Msg, want int) (shortR, shortS, plain []uint64) {
	for seq := uint64(1); seq < 20000 && (len(shortR) < want || len(shortS) < want); seq++ {
		sig := keys.Sign(key, mk(seq).OwnDigest())
		switch {
		case sig[0] == 0 && len(shortR) < want:
			shortR = append(shortR, seq)
		case sig[32] == 0 && len(shortS) < want:
			shortS = append(shortS, seq)
		case len(plain) < want:
			plain = append(plain, seq)
		}
	}
	return
}

// noNotifier: the processor is wired the way cmd/guardiand/node.go wires it when no Discord token is configured -
// a nil *discord.DiscordNotifier VARIABLE (not the literal nil) is handed to NewProcessor.
var noNotifier *discord.DiscordNotifier

// StepFullSend performs a tick while the outbound gossip queue cannot take anything (its consumer is busy): a
// re-broadcast has to wait for room, it must not be skipped. The queue is filled, the tick is dispatched on a
// goroutine of its own, and the harness watches (goroutine states, no clock) until the handler has finished or
// is parked in a channel send; then the fillers are drained and the handler's own sends are collected.
func (n *Node) StepFullSend(e interface{}) (out Out) {
	filler := []byte("verif-filler")
	nf := 0
	for len(n.SendC) < cap(n.SendC) {
		n.SendC <- filler
		nf++
	}
	done := make(chan struct{})
	go func() {
		defer close(done)
		defer func() {
			if p := recover(); p != nil {
				out.Panic = p
				out.Stack = string(debug.Stack())
			}
		}()
		n.P.VerifDispatch(n.W.Ctx, e)
	}()
	for finished := false; !finished; {
		select {
		case <-done:
			finished = true
		default:
			st := allStacks()
			if i := strings.Index(st, "handleCleanup"); i >= 0 && strings.Contains(st, "[chan send") {
				// parked waiting for room: make room (drop the fillers), the handler goes on
				for k := 0; k < nf; k++ {
					select {
					case b := <-n.SendC:
						if string(b) != string(filler) {
							n.held = append(n.held, b)
						}
					default:
					}
				}
				nf = 0
				out.Blocked = true
			}
			runtime.Gosched()
		}
	}
	for k := 0; k < nf; k++ { // never parked: the fillers are still there
		select {
		case b := <-n.SendC:
			if string(b) != string(filler) {
				n.held = append(n.held, b)
			}
		default:
		}
	}
	for _, b := range n.held { // put the handler's own messages back for drain
		n.SendC <- b
	}
	n.held = nil
	n.drain(&out)
	return out
}

// allStacks returns the complete goroutine dump (the buffer grows until the dump fits: a truncated dump can hide
// exactly the goroutine that is looked for).
var stackBuf = make([]byte, 1<<20)

func allStacks() string {
	n := runtime.Stack(stackBuf, true)
	for n == len(stackBuf) {
		stackBuf = make([]byte, 2*len(stackBuf))
		n = runtime.Stack(stackBuf, true)
	}
	return string(stackBuf[:n])
}

// StepFullObsv performs a local observation (or an injection) while the node's inbound observation queue is full - a
// burst of gossip. The node's own signature travels to its aggregation through that very queue: it has to arrive
// once there is room. Goroutine states decide (no clock): the sender of the loopback is either parked in a channel
// send, or there is none.
func (n *Node) StepFullObsv(e interface{}) (out Out) {
	filler := &gossipv1.SignedObservation{Addr: []byte("verif-filler")}
	nf := 0
	for len(n.ObsvC) < cap(n.ObsvC) {
		n.ObsvC <- filler
		nf++
	}
	func() {
		defer func() {
			if p := recover(); p != nil {
				out.Panic = p
				out.Stack = string(debug.Stack())
			}
		}()
		n.P.VerifDispatch(n.W.Ctx, e)
	}()
	n.drain(&out)
	senders := func() (parked, other int) {
		for _, g := range strings.Split(allStacks(), "\n\n") {
			if !strings.Contains(g, ").broadcastSignature.func") {
				continue
			}
			if strings.Contains(strings.SplitN(g, "\n", 2)[0], "[chan send") {
				parked++
			} else {
				other++
			}
		}
		return
	}
	for {
		if _, other := senders(); other == 0 {
			break
		}
		runtime.Gosched()
	}
	for k := 0; k < nf; k++ { // make room: the fillers come out first (FIFO), parked senders move in behind them
		if x := <-n.ObsvC; x != filler {
			n.Pending = append(n.Pending, x)
			out.Loopback++
		}
	}
	for {
		if parked, other := senders(); parked+other == 0 {
			break
		}
		runtime.Gosched()
	}
	for len(n.ObsvC) > 0 {
		n.Pending = append(n.Pending, <-n.ObsvC)
		out.Loopback++
	}
	if out.Panic == nil && out.Loopback < len(out.Obs) {
		out.LostLoopback = len(out.Obs) - out.Loopback
	}
	return out
}

// KMSPathSigner signs like the guardian's Cloud KMS signer: the signature travels DER-encoded and is brought
// into the 65-byte form by the real parseSignature / appendV of pkg/ecdsasigner.
type KMSPathSigner struct{ I int }

func (s KMSPathSigner) Sign(digest []byte) ([]byte, error) {
	return ecdsasigner.VerifKMSPathSign(keys.Key(s.I), digest)
}
func (s KMSPathSigner) PublicKey() ecdsa.PublicKey { return keys.Key(s.I).PublicKey }

// NewNodePrivateDB is NewNode over a store of its own, which the harness may close (CloseDB) to make every
// later write and lookup fail with the store's own error.
func (w *World) NewNodePrivateDB(ownKey int, reqCap int) *Node {
	d, err := db.VerifOpenInMemory()
	if err != nil {
		ev.Broken("in-memory store: %v", err)
	}
	return w.newNode(ownKey, reqCap, d)
}

// CloseDB closes the node's private store: the store-failure fault.
func (n *Node) CloseDB() {
	if !n.private {
		ev.Broken("CloseDB on the shared store")
	}
	if !n.DBClosed {
		n.DBClosed = true
		n.DB.Close()
	}
}

func (w *World) NewNode(ownKey int, reqCap int) *Node {
	return w.newNode(ownKey, reqCap, nil)
}

func (w *World) newNode(ownKey int, reqCap int, private *db.Database) *Node {
	if private != nil {
		vtime.ResetClock(T0)
		return w.build(ownKey, reqCap, private, true)
	}
	w.nodes++
	if w.nodes%4000 == 0 {
		// fresh in-memory store now and then: deleted versions accumulate in the memtable
		w.FullScan()
		w.DB.Close()
		d, err := db.VerifOpenInMemory()
		if err != nil {
			ev.Broken("in-memory store: %v", err)
		}
		w.DB = d
	}
	if err := w.DB.VerifDeleteKeys(w.Keys); err != nil {
		ev.Broken("wipe: %v", err)
	}
	vtime.ResetClock(T0)
	return w.build(ownKey, reqCap, w.DB, false)
}

func (w *World) build(ownKey int, reqCap int, d *db.Database, private bool) *Node {
	n := &Node{W: w, OwnKey: ownKey, DB: d, private: private,
		SendC:    make(chan []byte, 4096),
		ObsvC:    make(chan *gossipv1.SignedObservation, 64),
		ObsvReqC: make(chan *gossipv1.ObservationRequest, reqCap),
		GST:      common.NewGuardianSetState(nil),
	}
	rep := reporter.EventListener(zap.NewNop())
	sub := rep.Subscribe()
	n.quorumC = sub.Channels.VAAQuorumC
	msgC := sub.Channels.MessagePublicationC
	go func() { // keep the publication channel from overrunning; not observed
		for range msgC {
		}
	}()
	n.unsub = func() { rep.Unsubscribe(sub.ClientId); close(msgC) }
	n.LockC, n.SetC, n.InjectC, n.SignedInC = make(chan *common.MessagePublication), make(chan *common.GuardianSet), make(chan *vaa.VAA), make(chan *gossipv1.SignedVAAWithQuorum)
	var signer ecdsasigner.ECDSASigner = keys.Signer{I: ownKey}
	if w.KMSPath {
		signer = KMSPathSigner{I: ownKey}
	}
	notifier := noNotifier
	if w.OfflineNotifier {
		notifier = discord.VerifOffline()
	}
	n.P = processor.NewProcessor(w.Ctx, d,
		n.LockC, n.SetC, n.SendC, n.ObsvC, n.ObsvReqC,
		n.InjectC, n.SignedInC,
		signer, n.GST, rep, notifier, GovChain, GovAddr)
	return n
}

func (n *Node) Close() {
	n.unsub()
	if n.private && !n.DBClosed {
		n.DBClosed = true
		n.DB.Close()
	}
}

// StepFullQueue performs a tick while the outbound re-observation request queue is full. The
// handler runs on its own goroutine; if it has not returned while the harness is idle, its
// goroutine state is inspected: parked in a channel send means the tick blocks on the full queue.
func (n *Node) StepFullQueue(e interface{}) (out Out) {
	filler := &gossipv1.ObservationRequest{ChainId: 0xfffe}
	for len(n.ObsvReqC) < cap(n.ObsvReqC) {
		n.ObsvReqC <- filler
	}
	done := make(chan struct{})
	go func() {
		defer close(done)
		defer func() {
			if p := recover(); p != nil {
				out.Panic = p
				out.Stack = string(debug.Stack())
			}
		}()
		n.P.VerifDispatch(n.W.Ctx, e)
	}()
	select {
	case <-done:
	case <-time.After(3 * time.Second):
		st := allStacks()
		if strings.Contains(st, "handleCleanup") && strings.Contains(st, "chan send") {
			out.Blocked = true
			// release the handler so that the worker can go on
			for len(n.ObsvReqC) > 0 {
				<-n.ObsvReqC
			}
			<-done
			n.drain(&out)
			return out
		}
		<-done
	}
	// the queue must still hold exactly the filler requests
	for len(n.ObsvReqC) > 0 {
		if r := <-n.ObsvReqC; r != filler {
			out.Reqs = append(out.Reqs, r)
		}
	}
	n.drain(&out)
	return out
}

// Step performs one transition and collects its outputs. A panic is recovered and reported in Out.
func (n *Node) Step(e interface{}) (out Out) {
	if o, ok := e.(*gossipv1.SignedObservation); e == nil || (ok && o == nil) {
		return out // a loopback that never existed
	}
	func() {
		defer func() {
			if p := recover(); p != nil {
				out.Panic = p
				out.Stack = string(debug.Stack())
			}
		}()
		n.P.VerifDispatch(n.W.Ctx, e)
	}()
	n.drain(&out)
	// every SignedObservation broadcast by handleMessage / handleInjection is followed by exactly one
	// loopback goroutine; wait for it so that executions are deterministic.
	switch e.(type) {
	case *common.MessagePublication, processor.VerifInject:
		for i := 0; i < len(out.Obs); i++ {
			got := false
			for spin := 0; !got; spin++ {
				select {
				case lb := <-n.ObsvC:
					n.Pending = append(n.Pending, lb)
					out.Loopback++
					got = true
				default:
					runtime.Gosched()
				}
				if got || spin < 2000 || spin%200 != 0 {
					continue
				}
				// not there yet: is anybody still going to send it? (goroutine states, no clock)
				if !strings.Contains(allStacks(), ").broadcastSignature.func") {
					// no sender left: whatever it sent is in the queue by now (it may have finished between the
					// receive attempt above and the inspection)
					select {
					case lb := <-n.ObsvC:
						n.Pending = append(n.Pending, lb)
						out.Loopback++
						got = true
					default:
					}
					break
				}
			}
			if !got {
				if out.Panic == nil {
					out.LostLoopback++ // the node signed its observation and never told itself (judged by C02's oracle)
				}
				break
			}
		}
	}
	return out
}

func (n *Node) drain(out *Out) {
	for {
		select {
		case b := <-n.SendC:
			var g gossipv1.GossipMessage
			if err := proto.Unmarshal(b, &g); err != nil {
				out.Other++
				continue
			}
			switch m := g.Message.(type) {
			case *gossipv1.GossipMessage_SignedObservation:
				out.Obs = append(out.Obs, m.SignedObservation)
				out.ObsRaw = append(out.ObsRaw, b)
			case *gossipv1.GossipMessage_SignedVaaWithQuorum:
				out.VAAs = append(out.VAAs, m.SignedVaaWithQuorum.Vaa)
			default:
				out.Other++
			}
			continue
		default:
		}
		break
	}
	for {
		select {
		case r := <-n.ObsvReqC:
			out.Reqs = append(out.Reqs, r)
			continue
		default:
		}
		break
	}
	for {
		select {
		case v := <-n.quorumC:
			out.Quorum = append(out.Quorum, v)
			continue
		default:
		}
		break
	}
}

// TakeLoopback removes and returns the i-th pending loopback.
func (n *Node) TakeLoopback(i int) *gossipv1.SignedObservation {
	if i >= len(n.Pending) {
		return nil // the node never sent it (Step ignores a nil observation)
	}
	lb := n.Pending[i]
	n.Pending = append(append([]*gossipv1.SignedObservation{}, n.Pending[:i]...), n.Pending[i+1:]...)
	return lb
}

// Store returns the store content (raw key -> bytes).
func (n *Node) Store() map[string][]byte {
	m := map[string][]byte{}
	for _, k := range n.W.Keys {
		b, err := n.DB.VerifGetRaw(k)
		if err != nil {
			continue
		}
		m[k] = b
	}
	return m
}

// FullScan checks that the store holds no key outside the configured ids.
func (w *World) FullScan() {
	known := map[string]bool{}
	for _, k := range w.Keys {
		known[k] = true
	}
	for _, k := range w.DB.VerifKeys() {
		if !known[k] {
			ev.Broken("store holds a key outside the configured message ids: %s (harness alphabet incomplete)", k)
		}
	}
}

// ---- fixtures

// Set builds a guardian set from key ids.
func Set(index uint32, ids ...int) *common.GuardianSet {
	return &common.GuardianSet{Index: index, Keys: keys.Addrs(ids...)}
}

// Msg is a chain message fixture.
type Msg struct {
	Seq     uint64
	TSOff   int64 // seconds added to T0
	TSMs    int   // milliseconds added on top (block times of the Alephium watcher have millisecond precision); the VAA carries whole seconds, truncated
	Payload []byte
	Emitter vaa.Address
	Chain   vaa.ChainID
	Target  vaa.ChainID
	CL      uint8
	Nonce   uint32
	// TSKind: "" = T0 + TSOff + TSMs; "zero" = the zero time.Time (a watcher that did not fill the field);
	// "epoch" = Unix 0; "2106" = the last second a 32-bit timestamp can hold
	TSKind string
}

func (m Msg) Pub() *common.MessagePublication {
	ts := T0.Add(time.Duration(m.TSOff)*time.Second + time.Duration(m.TSMs)*time.Millisecond)
	switch m.TSKind {
	case "zero":
		ts = time.Time{}
	case "epoch":
		ts = time.Unix(0, 0)
	case "2106":
		ts = time.Unix(1<<32-1, 0)
	}
	mp := &common.MessagePublication{Timestamp: ts, Nonce: m.Nonce, Sequence: m.Seq, ConsistencyLevel: m.CL,
		EmitterChain: m.Chain, TargetChain: m.Target, EmitterAddress: m.Emitter, Payload: m.Payload}
	mp.TxHash[0] = byte(m.Seq)
	mp.TxHash[31] = 0x77
	return mp
}

// VAA is the unsigned VAA every guardian builds from the message, naming set index idx.
func (m Msg) VAA(idx uint32) *vaa.VAA {
	p := m.Pub()
	return &vaa.VAA{Version: 1, GuardianSetIndex: idx, Timestamp: p.Timestamp, Nonce: p.Nonce, Sequence: p.Sequence, ConsistencyLevel: p.ConsistencyLevel,
		EmitterChain: p.EmitterChain, TargetChain: p.TargetChain, EmitterAddress: p.EmitterAddress, Payload: p.Payload}
}

func (m Msg) String() string {
	return fmt.Sprintf("msg(seq=%d,ts+%d.%03ds,payload=%dB)", m.Seq, m.TSOff, m.TSMs, len(m.Payload))
}
