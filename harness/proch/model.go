package proch

import (
	"bytes"
	"encoding/hex"
	"fmt"
	"sort"
	"strings"
	"time"

	"github.com/alephium/wormhole-fork/node/pkg/processor"
	gossipv1 "github.com/alephium/wormhole-fork/node/pkg/proto/gossip/v1"
	"github.com/alephium/wormhole-fork/node/verifh/keys"
	"github.com/alephium/wormhole-fork/node/verifh/vtime"
	"github.com/ethereum/go-ethereum/common"
	"github.com/ethereum/go-ethereum/crypto"
)

// Config fixes the participants of one exploration.
type Config struct {
	Name   string  `json:"name"`
	Sets   [][]int `json:"sets"` // Sets[i] = key ids of the guardian set with index i
	OwnKey int     `json:"own_key"`
	Msgs   []Msg   `json:"msgs"`
	// PrivateDB: every instance gets a store of its own so that histories may contain the store-failure event
	PrivateDB bool `json:"private_db,omitempty"`
	// KMSPath: the node signs through the Cloud-KMS hand-over (DER -> parseSignature -> appendV)
	KMSPath bool `json:"kms_path,omitempty"`
}

// Event is one transition label. Everything is data so that a history is a replayable artefact.
type Event struct {
	Kind string `json:"kind"` // set | msg | lb | obs | in | inject | tick
	Set  int    `json:"set,omitempty"`
	M    int    `json:"m,omitempty"`
	// obs
	G       int `json:"g,omitempty"`     // key id that signs
	D       int `json:"d,omitempty"`     // message index whose digest is named; -1: a digest of no known message
	ObsKind int `json:"obs_kind,omitempty"` // 0 valid, 1 forged signature bytes, 2 valid signature but claims Claim's address, 3 signature made over another digest
	Claim   int `json:"claim,omitempty"`
	// in (inbound SignedVAAWithQuorum / backfill response)
	InVar int `json:"in_var,omitempty"` // see InVariants
	InSet int `json:"in_set,omitempty"` // set whose members sign
	LB    int `json:"lb,omitempty"`     // which pending loopback
	DtSec int  `json:"dt_sec,omitempty"` // tick: virtual seconds before the cleanup tick; budget: retry count to set
	FullQ bool `json:"full_q,omitempty"` // tick: the outbound re-observation request queue is full during the tick
	FullS bool `json:"full_send,omitempty"` // tick: the outbound gossip queue is full during the tick (consumer busy)
	FullO bool `json:"full_obsv,omitempty"` // msg / inject: the node's inbound observation queue is full at that moment (a burst of gossip)
}

func (e Event) String() string {
	switch e.Kind {
	case "set":
		return fmt.Sprintf("Set(%d)", e.Set)
	case "msg":
		if e.FullO {
			return fmt.Sprintf("Msg(%d,inbound observation queue full)", e.M)
		}
		return fmt.Sprintf("Msg(%d)", e.M)
	case "lb":
		return fmt.Sprintf("LB(%d)", e.LB)
	case "obs":
		k := ObsKinds[e.ObsKind]
		return fmt.Sprintf("Obs(g=%d,d=%d,%s)", e.G, e.D, k)
	case "in":
		return fmt.Sprintf("In(m=%d,%s,set=%d)", e.M, InVariants[e.InVar], e.InSet)
	case "inject":
		return fmt.Sprintf("Inject(%d)", e.M)
	case "tick":
		if e.FullS {
			return fmt.Sprintf("Tick(+%ds,gossip queue full)", e.DtSec)
		}
		if e.FullQ {
			return fmt.Sprintf("Tick(+%ds,request queue full)", e.DtSec)
		}
		return fmt.Sprintf("Tick(+%ds)", e.DtSec)
	case "budget":
		return fmt.Sprintf("SetRetryCount(m=%d,%d)", e.M, e.DtSec)
	case "dbclose":
		return "StoreFails(from now on)"
	}
	return e.Kind
}

var InVariants = []string{"quorum", "quorum-1", "all-members", "one-bad-signature", "descending", "duplicate-index", "wrong-body", "names-other-set", "quorum-plus-outsider",
	// malformed shapes (C13)
	"nil-bytes", "56-bytes", "57-bytes", "58-bytes", "255-signatures-announced", "empty-payload-quorum", "version-2", "truncated-signature"}

var ObsKinds = []string{"valid", "forged", "claims-other", "other-digest",
	// malformed shapes (C13): a valid member signature with one field bent
	"hash-empty", "hash-31", "hash-33", "sig-empty", "sig-64", "sig-66", "addr-nil", "addr-19", "addr-21", "all-nil",
	// the same valid signature in another ENCODING: recovery id written as 27/28 (Ethereum transaction
	// style). Neither vaa.VerifySignatures nor the contracts' own v+27 accept it inside a VAA, so it must not count.
	"recid+27"}

var unknownDigest = crypto.Keccak256([]byte("a digest of no message"))

func (c *Config) digest(d int) []byte {
	if d < 0 {
		return unknownDigest
	}
	return c.Msgs[d].OwnDigest()
}

// Materialise builds the real input object for an event.
func (c *Config) Materialise(n *Node, e Event) interface{} {
	switch e.Kind {
	case "set":
		return Set(uint32(e.Set), c.Sets[e.Set]...)
	case "msg":
		return c.Msgs[e.M].Pub()
	case "lb":
		return n.TakeLoopback(e.LB)
	case "obs":
		d := c.digest(e.D)
		o := &gossipv1.SignedObservation{Addr: keys.Addr(e.G).Bytes(), Hash: d, TxHash: []byte{1}, MessageId: "x"}
		switch e.ObsKind {
		case 0:
			o.Signature = keys.Sign(e.G, d)
		case 1:
			o.Signature = keys.Sign(e.G, d)
			o.Signature[10] ^= 0x40
		case 2:
			o.Signature = keys.Sign(e.G, d)
			o.Addr = keys.Addr(e.Claim).Bytes()
		case 3:
			o.Signature = keys.Sign(e.G, crypto.Keccak256(d))
		default:
			o.Signature = keys.Sign(e.G, d)
			switch ObsKinds[e.ObsKind] {
			case "hash-empty":
				o.Hash = nil
			case "hash-31":
				o.Hash = d[:31]
			case "hash-33":
				o.Hash = append(append([]byte{}, d...), 0)
			case "sig-empty":
				o.Signature = nil
			case "sig-64":
				o.Signature = o.Signature[:64]
			case "sig-66":
				o.Signature = append(o.Signature, 0)
			case "addr-nil":
				o.Addr = nil
			case "addr-19":
				o.Addr = o.Addr[1:]
			case "addr-21":
				o.Addr = append([]byte{0}, o.Addr...)
			case "all-nil":
				o = &gossipv1.SignedObservation{}
			case "recid+27":
				o.Signature = append([]byte{}, o.Signature...)
				o.Signature[64] += 27
			}
		}
		return o
	case "in":
		return &gossipv1.SignedVAAWithQuorum{Vaa: c.Inbound(e)}
	case "inject":
		return processor.VerifInject{V: c.Msgs[e.M].VAA(0)}
	case "tick":
		return processor.VerifTick{}
	case "budget", "dbclose":
		return nil
	}
	panic("unknown event kind " + e.Kind)
}

// Inbound builds the wire bytes of an inbound-VAA variant.
func (c *Config) Inbound(e Event) []byte {
	m := c.Msgs[e.M]
	body := m.OwnBody()
	digest := m.OwnDigest()
	set := c.Sets[e.InSet]
	q := Quorum(len(set))
	sig := func(idx int, key int, dg []byte) DSig {
		s := DSig{Idx: uint8(idx)}
		copy(s.Sig[:], keys.Sign(key, dg))
		return s
	}
	var sigs []DSig
	if len(set) == 0 {
		q = 0
	}
	first := func(k int) {
		for i := 0; i < k && i < len(set); i++ {
			sigs = append(sigs, sig(i, set[i], digest))
		}
	}
	named := uint32(e.InSet)
	switch InVariants[e.InVar] {
	case "nil-bytes":
		return nil
	case "56-bytes", "57-bytes", "58-bytes":
		first(0)
		b := Encode(1, named, nil, body)
		k := map[string]int{"56-bytes": 56, "57-bytes": 57, "58-bytes": 58}[InVariants[e.InVar]]
		for len(b) < k {
			b = append(b, 0)
		}
		return b[:k]
	case "255-signatures-announced":
		first(q)
		b := Encode(1, named, sigs, body)
		b[5] = 255
		return b
	case "empty-payload-quorum":
		body = body[:53]
		digest = crypto.Keccak256(crypto.Keccak256(body))
		first(q)
		return Encode(1, named, sigs, body)
	case "version-2":
		first(q)
		return Encode(2, named, sigs, body)
	case "truncated-signature":
		first(q)
		b := Encode(1, named, sigs, body)
		return b[:6+66*len(sigs)-3]
	case "quorum":
		// the LAST q members, so that signer subsets differ from "first q"
		for i := len(set) - q; i < len(set); i++ {
			sigs = append(sigs, sig(i, set[i], digest))
		}
	case "quorum-1":
		first(q - 1)
	case "all-members":
		first(len(set))
	case "one-bad-signature":
		first(q)
		sigs[len(sigs)-1].Sig[5] ^= 1
	case "descending":
		first(q)
		for i, j := 0, len(sigs)-1; i < j; i, j = i+1, j-1 {
			sigs[i], sigs[j] = sigs[j], sigs[i]
		}
	case "duplicate-index":
		first(q)
		if len(sigs) >= 1 {
			sigs = append(sigs[:1], sigs...) // first signature twice
		}
	case "wrong-body":
		first(q)
		body = append([]byte{}, body...)
		body[len(body)-1] ^= 1 // signatures are over the original body
	case "names-other-set":
		first(q)
		named = uint32(e.InSet) + 7
	case "quorum-plus-outsider":
		first(q)
		if len(sigs) > 0 && len(set) < 255 {
			// an extra signature by a non-member claiming the next index (in range only if q < n)
			sigs = append(sigs, sig(int(sigs[len(sigs)-1].Idx)+1, 9999, digest))
		}
	}
	return Encode(1, named, sigs, body)
}

// ---- reference model (written from the property statements; a few maps)

type mEntry struct {
	Rec       map[common.Address]bool // members whose valid observation was accepted
	Snap      int                     // set in force at the most recent non-dropped local observation, -1 none
	Published int                     // publications of this digest so far
	Injected  bool
}

type Model struct {
	C   *Config
	Cur int // current set index, -1 none
	Ent map[string]*mEntry
	// DBClosed: the store fails every write and lookup from now on (fault scenarios)
	DBClosed bool
}

func NewModel(c *Config) *Model { return &Model{C: c, Cur: -1, Ent: map[string]*mEntry{}} }

func (m *Model) ent(d []byte) *mEntry {
	k := hex.EncodeToString(d)
	if m.Ent[k] == nil {
		m.Ent[k] = &mEntry{Rec: map[common.Address]bool{}, Snap: -1}
	}
	return m.Ent[k]
}

func (m *Model) setAddrs(i int) []common.Address { return keys.Addrs(m.C.Sets[i]...) }

func member(set []common.Address, a common.Address) bool {
	for _, x := range set {
		if x == a {
			return true
		}
	}
	return false
}

// Expect is what the model says must (not) be observable in this step.
type Expect struct {
	MsgDropped  bool   // local observation must leave no trace
	MsgSigned   bool   // exactly one own SignedObservation + one loopback
	Publish     []byte // digest that reaches its publish point in this step (nil: none)
	InAccept    bool   // inbound VAA may be stored
	ObsAccepted bool
}

// Apply advances the model. store is the store content before the step.
func (m *Model) Apply(e Event, in interface{}, store map[string][]byte) Expect {
	var x Expect
	switch e.Kind {
	case "dbclose":
		m.DBClosed = true
	case "set":
		m.Cur = e.Set
	case "msg", "inject":
		msg := m.C.Msgs[e.M]
		if e.Kind == "msg" {
			if m.Cur < 0 || (msg.Emitter == GovAddr && msg.Chain == GovChain) {
				x.MsgDropped = true
				return x
			}
			if old, ok := store[msg.StoreKey()]; ok {
				if d, err := Decode(old); err == nil {
					oldTS := int64(uint32(d.Body[0])<<24 | uint32(d.Body[1])<<16 | uint32(d.Body[2])<<8 | uint32(d.Body[3]))
					if msg.Pub().Timestamp.Unix()-oldTS > 30 {
						x.MsgDropped = true
						return x
					}
				}
			}
		}
		en := m.ent(msg.OwnDigest())
		en.Snap = m.Cur // injection before any set: -1 (nothing can ever be counted)
		if e.Kind == "inject" {
			en.Injected = true
		}
		x.MsgSigned = true
	case "obs", "lb":
		o := in.(*gossipv1.SignedObservation)
		signer, ok := Recover(o.Hash, o.Signature)
		if !ok {
			return x
		}
		if signer != common.BytesToAddress(o.Addr) {
			return x
		}
		k := hex.EncodeToString(o.Hash)
		applicable := m.Cur
		if en := m.Ent[k]; en != nil && en.Snap >= 0 {
			applicable = en.Snap
		}
		if applicable < 0 || !member(m.setAddrs(applicable), signer) {
			return x
		}
		x.ObsAccepted = true
		en := m.ent(o.Hash)
		en.Rec[signer] = true
		if en.Snap >= 0 && en.Published == 0 {
			set := m.setAddrs(en.Snap)
			cnt := 0
			for _, a := range set {
				if en.Rec[a] {
					cnt++
				}
			}
			if cnt >= Quorum(len(set)) {
				en.Published++
				x.Publish = o.Hash
			}
		}
	case "in":
		b := in.(*gossipv1.SignedVAAWithQuorum).Vaa
		d, err := Decode(b)
		if err != nil || m.Cur < 0 {
			return x
		}
		if ok, _ := Verify(d, m.setAddrs(m.Cur)); !ok {
			return x
		}
		if _, exists := store[d.StoreKey()]; exists {
			return x
		}
		x.InAccept = true
	}
	return x
}

// Key is the model's part of the canonical state key.
func (m *Model) Key() string {
	var ks []string
	for k, en := range m.Ent {
		var rs []string
		for a := range en.Rec {
			rs = append(rs, hex.EncodeToString(a[:4]))
		}
		sort.Strings(rs)
		ks = append(ks, fmt.Sprintf("%s:%v:%d:%d", k[:8], rs, en.Snap, en.Published))
	}
	sort.Strings(ks)
	if m.DBClosed {
		ks = append(ks, "~store-closed")
	}
	return fmt.Sprintf("cur=%d|%s", m.Cur, strings.Join(ks, ";"))
}

// ImplKey is the implementation's part of the canonical state key: aggregation entries (signers,
// flags, set indices), store content, pending loopbacks. Times are left out (no ticks in the
// histories that use this key); retry counters are included.
func ImplKey(n *Node, store map[string][]byte, withTimes bool) string {
	var sb strings.Builder
	for _, e := range n.P.VerifSnapshot() {
		fmt.Fprintf(&sb, "%s:%v:%v:%d:%d:%v:%v:%d:%v", e.Digest[:8], shortAll(e.Signers), e.HasOurVAA, e.OurVAASetIdx, e.SnapSetIdx, e.Submitted, e.Settled, e.RetryCount, e.HasOurMsg)
		if withTimes {
			now := vtime.Now()
			lr := int64(-1)
			if !e.LastRetry.IsZero() {
				lr = int64(now.Sub(e.LastRetry) / time.Second)
			}
			fmt.Fprintf(&sb, ":age=%d:sinceRetry=%d", int64(now.Sub(e.FirstObserved)/time.Second), lr)
		}
		sb.WriteString(";")
	}
	sb.WriteString("|store:")
	var sk []string
	for k, v := range store {
		sk = append(sk, fmt.Sprintf("%s=%x", k[len(k)-6:], crypto.Keccak256(v)[:6]))
	}
	sort.Strings(sk)
	sb.WriteString(strings.Join(sk, ","))
	sb.WriteString("|lb:")
	var lb []string
	for _, p := range n.Pending {
		lb = append(lb, hex.EncodeToString(p.Hash[:4]))
	}
	sort.Strings(lb)
	sb.WriteString(strings.Join(lb, ","))
	return sb.String()
}

func shortAll(s []string) []string {
	out := make([]string, len(s))
	for i, x := range s {
		out[i] = x[:8]
	}
	return out
}

var _ = bytes.Equal
var _ = time.Second
