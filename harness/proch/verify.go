package proch

import (
	"encoding/binary"
	"encoding/hex"
	"fmt"
	"sync"

	"github.com/ethereum/go-ethereum/common"
	"github.com/ethereum/go-ethereum/crypto"
)

// Independent wire decoder and signature verifier (own layout, own double keccak, ecrecover);
// shares no code with node/pkg/vaa.

type DSig struct {
	Idx uint8
	Sig [65]byte
}

type Decoded struct {
	Version uint8
	SetIdx  uint32
	Sigs    []DSig
	Body    []byte
	Digest  []byte
	// body fields
	Chain, Target uint16
	Emitter       [32]byte
	Seq           uint64
}

func Decode(b []byte) (*Decoded, error) {
	if len(b) < 6 {
		return nil, fmt.Errorf("short header")
	}
	d := &Decoded{Version: b[0], SetIdx: binary.BigEndian.Uint32(b[1:5])}
	n := int(b[5])
	if len(b) < 6+66*n+53 {
		return nil, fmt.Errorf("short: %d signatures announced, %d bytes", n, len(b))
	}
	for i := 0; i < n; i++ {
		var s DSig
		s.Idx = b[6+66*i]
		copy(s.Sig[:], b[7+66*i:7+66*i+65])
		d.Sigs = append(d.Sigs, s)
	}
	d.Body = b[6+66*n:]
	d.Digest = crypto.Keccak256(crypto.Keccak256(d.Body))
	d.Chain = binary.BigEndian.Uint16(d.Body[8:10])
	d.Target = binary.BigEndian.Uint16(d.Body[10:12])
	copy(d.Emitter[:], d.Body[12:44])
	d.Seq = binary.BigEndian.Uint64(d.Body[44:52])
	return d, nil
}

var (
	recMu    sync.RWMutex
	recCache = map[string]common.Address{}
)

// Recover returns the address that signed digest (memoised: the oracle side of an exploration asks
// the same (digest, signature) questions over and over). ok=false when the signature does not recover.
func Recover(digest, sig []byte) (common.Address, bool) {
	k := string(digest) + string(sig)
	recMu.RLock()
	a, hit := recCache[k]
	recMu.RUnlock()
	if hit {
		return a, a != (common.Address{})
	}
	var out common.Address
	if pk, err := crypto.Ecrecover(digest, sig); err == nil {
		out = common.BytesToAddress(crypto.Keccak256(pk[1:])[12:])
	}
	recMu.Lock()
	recCache[k] = out
	recMu.Unlock()
	return out, out != (common.Address{})
}

// StoreKey is the key under which the store files this VAA.
func (d *Decoded) StoreKey() string {
	return fmt.Sprintf("signed/%d/%s/%d/%d", d.Chain, hex.EncodeToString(d.Emitter[:]), d.Target, d.Seq)
}

func Quorum(n int) int { return 2*n/3 + 1 }

// Verify checks: at least quorum signatures, strictly ascending in-range indices, each signature
// recovering over the VAA's own digest to the key at its index, no member twice.
func Verify(d *Decoded, set []common.Address) (bool, string) {
	if len(set) == 0 {
		return false, "empty guardian set"
	}
	if len(d.Sigs) < Quorum(len(set)) {
		return false, fmt.Sprintf("%d signatures < quorum %d of %d", len(d.Sigs), Quorum(len(set)), len(set))
	}
	last := -1
	seen := map[common.Address]bool{}
	for _, s := range d.Sigs {
		if int(s.Idx) >= len(set) {
			return false, "index out of range"
		}
		if int(s.Idx) <= last {
			return false, "indices not strictly ascending"
		}
		last = int(s.Idx)
		a, ok := Recover(d.Digest, s.Sig[:])
		if !ok {
			return false, "signature does not recover"
		}
		if a != set[s.Idx] {
			return false, fmt.Sprintf("signature at index %d does not recover to that guardian", s.Idx)
		}
		if seen[a] {
			return false, "member counted twice"
		}
		seen[a] = true
	}
	return true, ""
}

// OwnBody serialises a message from the statement's layout.
func (m Msg) OwnBody() []byte {
	p := m.Pub()
	b := make([]byte, 53, 53+len(p.Payload))
	binary.BigEndian.PutUint32(b[0:], uint32(p.Timestamp.Unix()))
	binary.BigEndian.PutUint32(b[4:], p.Nonce)
	binary.BigEndian.PutUint16(b[8:], uint16(p.EmitterChain))
	binary.BigEndian.PutUint16(b[10:], uint16(p.TargetChain))
	copy(b[12:44], p.EmitterAddress[:])
	binary.BigEndian.PutUint64(b[44:], p.Sequence)
	b[52] = p.ConsistencyLevel
	return append(b, p.Payload...)
}

func (m Msg) OwnDigest() []byte { return crypto.Keccak256(crypto.Keccak256(m.OwnBody())) }

func (m Msg) StoreKey() string {
	p := m.Pub()
	return fmt.Sprintf("signed/%d/%s/%d/%d", p.EmitterChain, hex.EncodeToString(p.EmitterAddress[:]), p.TargetChain, p.Sequence)
}

// Encode builds wire bytes from parts (independent encoder for inbound-VAA fixtures).
func Encode(version uint8, setIdx uint32, sigs []DSig, body []byte) []byte {
	b := []byte{version, 0, 0, 0, 0, byte(len(sigs))}
	binary.BigEndian.PutUint32(b[1:5], setIdx)
	for _, s := range sigs {
		b = append(b, s.Idx)
		b = append(b, s.Sig[:]...)
	}
	return append(b, body...)
}
