package proch

import (
	"bytes"
	"encoding/hex"
	"fmt"
	"sort"
	"strings"
	"time"

	gossipv1 "github.com/alephium/wormhole-fork/node/pkg/proto/gossip/v1"
	"github.com/alephium/wormhole-fork/node/verifh/ev"
	"github.com/alephium/wormhole-fork/node/verifh/keys"
	"github.com/alephium/wormhole-fork/node/verifh/vtime"
	"github.com/ethereum/go-ethereum/crypto"
)

// Replay is the artefact of a failing history.
type Replay struct {
	Config  Config   `json:"config"`
	History []Event  `json:"history"`
	Pretty  []string `json:"pretty"`
	Oracle  string   `json:"oracle"`
}

// Explorer runs histories against fresh real processors.
type Explorer struct {
	R       *ev.Run
	W       *World
	C       *Config
	Oracles map[string]bool // "C01", "C02", "C13"
	// WithTimes puts entry ages (virtual seconds) into the state key; needed as soon as histories contain ticks.
	WithTimes bool
	// OnStep, if set, is called after every checked transition (C14's schedule oracle).
	OnStep func(in *inst, e Event, out Out, hist []Event)
	BeforeStep func(in *inst, e Event)
	// OnNewState, if set, is called once for every newly discovered state with the live instance
	// (which is discarded afterwards, so the callback may keep driving it).
	OnNewState func(in *inst, hist []Event)
	// Panicked is set when the last checked step panicked (the process would have exited).
	Panicked bool
	// stats
	keysFor                     *Config
	States, Transitions, Builds int
	Publishes, Stores, Drops    int
}

type Inst = inst

type inst struct {
	n     *Node
	m     *Model
	store map[string][]byte
	key   string
	// LastBroadcast: virtual time at which each SignedObservation gossip message (keyed by its bytes)
	// was last seen on the outbound channel - the harness's own record, independent of the node's fields.
	LastBroadcast map[string]time.Time
	PrevBroadcast map[string]time.Time // value before the step just taken
}

func (in *inst) auxKey() string {
	if len(in.LastBroadcast) == 0 {
		return ""
	}
	var ks []string
	now := vtime.Now()
	for k, t := range in.LastBroadcast {
		ks = append(ks, fmt.Sprintf("%x@%d", crypto.Keccak256([]byte(k))[:3], int64(now.Sub(t)/time.Second)))
	}
	sort.Strings(ks)
	return "|bc:" + strings.Join(ks, ",")
}

func (x *Explorer) fresh() *inst {
	if len(x.W.Keys) == 0 || x.keysFor != x.C {
		if len(x.W.Keys) > 0 && x.W.DB != nil {
			// another configuration used this world before: what its last history left in the shared store goes first
			if err := x.W.DB.VerifDeleteKeys(x.W.Keys); err != nil {
				ev.Broken("wipe: %v", err)
			}
		}
		x.W.Keys = nil
		seen := map[string]bool{}
		for _, m := range x.C.Msgs {
			if k := m.StoreKey(); !seen[k] {
				seen[k] = true
				x.W.Keys = append(x.W.Keys, k)
			}
		}
		x.keysFor = x.C
	}
	x.W.KMSPath = x.C.KMSPath
	var n *Node
	if x.C.PrivateDB {
		n = x.W.NewNodePrivateDB(x.C.OwnKey, 50)
	} else {
		n = x.W.NewNode(x.C.OwnKey, 50)
	}
	in := &inst{n: n, m: NewModel(x.C), store: map[string][]byte{}, LastBroadcast: map[string]time.Time{}}
	in.key = in.m.Key() + "#" + ImplKey(n, in.store, x.WithTimes)
	return in
}

func (x *Explorer) viol(oracle, key, what string, hist []Event) {
	var pretty []string
	for _, e := range hist {
		pretty = append(pretty, e.String())
	}
	x.R.Violation(key, what+"  history: "+strings.Join(pretty, " "), Replay{*x.C, hist, pretty, oracle})
}

// step applies one event to the instance with all enabled oracles; hist is the history including e.
func (x *Explorer) step(in *inst, e Event, hist []Event, check bool) {
	if e.Kind == "lb" && e.LB >= len(in.n.Pending) {
		// a scripted history delivers the node's own signature, but the node never sent it to itself: nothing to
		// deliver. C02 judges that; every other check goes on without the event.
		if check && x.Oracles["C02"] {
			x.viol("C02", "C02 own signature lost: the node signed its observation but the signature never reached its own aggregation", "the history's loopback step finds no pending loopback", hist)
		} else if check {
			x.R.Add("loopbacks_missing_not_judged_here", 1)
		}
		return
	}
	input := x.C.Materialise(in.n, e)
	if e.Kind == "tick" {
		vtime.Advance(time.Duration(e.DtSec) * time.Second)
	}
	pre := in.store
	exp := in.m.Apply(e, input, pre)
	if check && x.BeforeStep != nil {
		x.BeforeStep(in, e)
	}
	var out Out
	switch {
	case e.Kind == "budget":
		in.n.P.VerifSetRetryCount(hex.EncodeToString(x.C.Msgs[e.M].OwnDigest()), uint(e.DtSec))
	case e.Kind == "dbclose":
		in.n.CloseDB()
	case e.Kind == "tick" && e.FullQ:
		out = in.n.StepFullQueue(input)
	case e.Kind == "tick" && e.FullS:
		out = in.n.StepFullSend(input)
	case (e.Kind == "msg" || e.Kind == "inject") && e.FullO:
		out = in.n.StepFullObsv(input)
	default:
		out = in.n.Step(input)
	}
	post := in.n.Store()
	in.store = post
	prevBroadcast := in.LastBroadcast
	if len(out.ObsRaw) > 0 && e.Kind == "tick" { // retransmissions by the cleanup service only
		nb := map[string]time.Time{}
		for k, v := range in.LastBroadcast {
			nb[k] = v
		}
		for _, raw := range out.ObsRaw {
			nb[string(raw)] = vtime.Now()
		}
		in.LastBroadcast = nb
	}
	in.PrevBroadcast = prevBroadcast
	in.key = in.m.Key() + "#" + ImplKey(in.n, post, x.WithTimes)
	if x.WithTimes {
		in.key += in.auxKey()
	}
	if !check {
		return
	}
	x.Panicked = out.Panic != nil
	if out.Panic != nil {
		if x.Oracles["C13"] {
			x.viol("C13", "panic: "+panicSite(out.Stack), fmt.Sprint(out.Panic), hist)
		} else {
			// a panic is a C13 matter; other oracles cannot judge this step
			x.R.Add("panics_seen_not_judged_here", 1)
		}
		if x.Oracles["C02"] && exp.MsgSigned && len(out.Obs) == 0 {
			x.viol("C02", "C02 local observation was not signed: the handler panicked before broadcasting it", fmt.Sprint(out.Panic), hist)
		}
		return
	}
	if x.Oracles["C01"] {
		x.oracleC01(in, e, input, exp, out, pre, post, hist)
	}
	if x.Oracles["C02"] {
		x.oracleC02(in, e, input, exp, out, pre, post, hist)
		if out.LostLoopback > 0 {
			x.viol("C02", "C02 own signature lost: the node signed its observation but the signature never reached its own aggregation", fmt.Sprintf("%d observation(s) broadcast, %d fewer arrived on the node's own observation queue once there was room", len(out.Obs), out.LostLoopback), hist)
		}
	}
	if x.OnStep != nil {
		x.OnStep(in, e, out, hist)
	}
}

func panicSite(stack string) string {
	// first frame inside the repository's packages after the panic
	lines := strings.Split(stack, "\n")
	seenPanic := false
	for i, l := range lines {
		if strings.HasPrefix(l, "panic(") {
			seenPanic = true
			continue
		}
		if seenPanic && strings.Contains(l, "wormhole-fork/node/pkg/") && !strings.Contains(l, "VerifDispatch") && i+1 < len(lines) {
			fn := l
			if k := strings.LastIndex(fn, "/"); k >= 0 {
				fn = fn[k+1:]
			}
			if k := strings.Index(fn, "("); k > 0 && strings.Contains(fn[:k], ".") {
				// keep pkg.(*T).method
			}
			if k := strings.LastIndex(fn, "("); k > 0 {
				fn = fn[:k]
			}
			return fn
		}
	}
	return "unknown site"
}

func (x *Explorer) msgByDigest(d []byte) int {
	for i, m := range x.C.Msgs {
		if bytes.Equal(m.OwnDigest(), d) {
			return i
		}
	}
	return -1
}

// oracleC01: everything stored or broadcast as complete verifies against the right guardian set.
func (x *Explorer) oracleC01(in *inst, e Event, input interface{}, exp Expect, out Out, pre, post map[string][]byte, hist []Event) {
	ownAssembly := e.Kind == "obs" || e.Kind == "lb"
	for _, b := range out.VAAs {
		x.Publishes++
		if !ownAssembly {
			x.viol("C01", "C01 broadcast of a signed VAA on a "+e.Kind+" step", "", hist)
			continue
		}
		d, err := Decode(b)
		if err != nil {
			x.viol("C01", "C01 broadcast VAA does not decode", err.Error(), hist)
			continue
		}
		mi := x.msgByDigest(d.Digest)
		if mi < 0 {
			x.viol("C01", "C01 broadcast VAA whose body is not a message the node observed", "", hist)
			continue
		}
		en := in.m.Ent[hex.EncodeToString(d.Digest)]
		if en == nil || en.Snap < 0 {
			x.viol("C01", "C01 broadcast VAA for a message the node has not observed under any set", "", hist)
			continue
		}
		if int(d.SetIdx) != en.Snap {
			x.viol("C01", "C01 own VAA names a set other than the one in force at observation", fmt.Sprintf("names %d, in force %d", d.SetIdx, en.Snap), hist)
			continue
		}
		if ok, why := Verify(d, in.m.setAddrs(en.Snap)); !ok {
			x.viol("C01", "C01 own VAA fails verification against the set it names: "+generalise(why), why, hist)
		}
	}
	// store changes
	for k, v := range post {
		old, had := pre[k]
		if had && bytes.Equal(old, v) {
			continue
		}
		x.Stores++
		switch {
		case ownAssembly:
			found := false
			for _, b := range out.VAAs {
				if bytes.Equal(b, v) {
					found = true
				}
			}
			if !found {
				x.viol("C01", "C01 stored bytes differ from the VAA broadcast in the same step", k, hist)
				// still verify what was stored
				if d, err := Decode(v); err != nil {
					x.viol("C01", "C01 stored VAA does not decode", err.Error(), hist)
				} else if en := in.m.Ent[hex.EncodeToString(d.Digest)]; en == nil || en.Snap < 0 {
					x.viol("C01", "C01 stored VAA for an unobserved message", "", hist)
				} else if ok, why := Verify(d, in.m.setAddrs(en.Snap)); !ok {
					x.viol("C01", "C01 stored own VAA fails verification: "+generalise(why), why, hist)
				}
			}
		case e.Kind == "in":
			inb := input.(*gossipv1.SignedVAAWithQuorum).Vaa
			if had {
				x.viol("C01", "C01 an already stored VAA was replaced by a peer's copy", k, hist)
			}
			if !bytes.Equal(inb, v) {
				x.viol("C01", "C01 stored bytes differ from the accepted inbound VAA", k, hist)
			}
			d, err := Decode(v)
			if err != nil {
				x.viol("C01", "C01 stored inbound VAA does not decode", err.Error(), hist)
				break
			}
			if in.m.Cur < 0 {
				x.viol("C01", "C01 inbound VAA stored before any guardian set is known", "", hist)
				break
			}
			if ok, why := Verify(d, in.m.setAddrs(in.m.Cur)); !ok {
				x.viol("C01", "C01 stored inbound VAA fails verification against the current set: "+generalise(why), why+" ("+InVariants[e.InVar]+")", hist)
			}
		default:
			x.viol("C01", "C01 store changed on a "+e.Kind+" step", k, hist)
		}
	}
	for k := range pre {
		if _, ok := post[k]; !ok {
			x.viol("C01", "C01 stored VAA disappeared", k, hist)
		}
	}
	for _, q := range out.Quorum {
		b, _ := q.Marshal()
		ok := false
		for _, v := range post {
			if bytes.Equal(v, b) {
				ok = true
			}
		}
		if !ok {
			x.viol("C01", "C01 VAAQuorum event carries a VAA that is not the stored one", "", hist)
		}
	}
}

func generalise(why string) string {
	switch {
	case strings.Contains(why, "< quorum"):
		return "fewer than quorum signatures"
	case strings.Contains(why, "does not recover to that guardian"):
		return "a signature does not recover to the guardian at its index"
	}
	return why
}

// oracleC02: published exactly when observed and quorum-signed.
func (x *Explorer) oracleC02(in *inst, e Event, input interface{}, exp Expect, out Out, pre, post map[string][]byte, hist []Event) {
	own := keys.Addr(x.C.OwnKey)
	// (1) exactly-when
	switch {
	case exp.Publish != nil && len(out.VAAs) == 0:
		x.viol("C02", "C02 quorum of the relevant set delivered for an observed message but nothing was published", hex.EncodeToString(exp.Publish[:4]), hist)
	case exp.Publish == nil && len(out.VAAs) > 0:
		why := "before quorum of distinct members of the relevant set / without a local observation / a second time"
		x.viol("C02", "C02 published although the model is not at a publish point", why, hist)
	case len(out.VAAs) > 1:
		x.viol("C02", "C02 more than one signed VAA broadcast in one step", "", hist)
	case exp.Publish != nil:
		d, err := Decode(out.VAAs[0])
		if err != nil || !bytes.Equal(d.Digest, exp.Publish) {
			x.viol("C02", "C02 published VAA is for another digest than the one that reached quorum", "", hist)
			break
		}
		mi := x.msgByDigest(d.Digest)
		if mi < 0 || !bytes.Equal(d.Body, x.C.Msgs[mi].OwnBody()) {
			x.viol("C02", "C02 published body is not exactly the node's own observation", "", hist)
			break
		}
		en := in.m.Ent[hex.EncodeToString(d.Digest)]
		set := in.m.setAddrs(en.Snap)
		if int(d.SetIdx) != en.Snap && !en.Injected {
			x.viol("C02", "C02 published VAA names a set other than the one in force at observation", "", hist)
		}
		for _, s := range d.Sigs {
			if int(s.Idx) >= len(set) || !en.Rec[set[s.Idx]] {
				x.viol("C02", "C02 published VAA carries a signature of a guardian whose observation was never delivered", "", hist)
			}
		}
		if sv, ok := post[d.StoreKey()]; (!ok || !bytes.Equal(sv, out.VAAs[0])) && !in.m.DBClosed {
			x.viol("C02", "C02 published VAA was broadcast but not stored", "", hist)
		}
	}
	// (4)(5)(6) local observation / injection
	if e.Kind == "msg" || e.Kind == "inject" {
		m := x.C.Msgs[e.M]
		switch {
		case exp.MsgDropped:
			if len(out.Obs) != 0 || out.Loopback != 0 {
				x.viol("C02", "C02 a dropped local observation (no set / governance emitter / already finalised) was signed", m.String(), hist)
			}
		case exp.MsgSigned:
			if len(out.Obs) != 1 || out.Loopback != 1 {
				x.viol("C02", fmt.Sprintf("C02 local observation produced %d SignedObservation and %d loopbacks, want 1 and 1", len(out.Obs), out.Loopback), m.String(), hist)
				break
			}
			o := out.Obs[0]
			if !bytes.Equal(o.Hash, m.OwnDigest()) {
				x.viol("C02", "C02 node signed a digest that is not the double keccak of its observation's body", "", hist)
			}
			pk, err := crypto.Ecrecover(o.Hash, o.Signature)
			if err != nil || !bytes.Equal(crypto.Keccak256(pk[1:])[12:], own[:]) || !bytes.Equal(o.Addr, own[:]) {
				x.viol("C02", "C02 own SignedObservation is not validly signed by the node's key", "", hist)
			}
		}
	} else if len(out.Obs) != 0 || out.Loopback != 0 {
		x.viol("C02", "C02 a SignedObservation was broadcast on a "+e.Kind+" step", "", hist)
	}
}

// Enabled is the menu of events offered in a state.
type Enabled func(in *Node, m *Model, hist []Event) []Event

// BFS explores all histories up to depth with state-key pruning. From a state, events that leave the
// canonical key unchanged are tried on the same instance; after a state-changing event the instance is
// rebuilt by replaying the (shortest) history on a fresh real processor.
func (x *Explorer) BFS(depth int, menu Enabled, maxStates int, final func(in *Node, m *Model, hist []Event)) {
	x.BFSFrom(nil, depth, menu, maxStates, final)
}

// BFSFrom starts the search in the (non-initial) state reached by prefix; depth counts events after it.
func (x *Explorer) BFSFrom(prefix []Event, depth int, menu Enabled, maxStates int, final func(in *Node, m *Model, hist []Event)) {
	type node struct{ hist []Event }
	seen := map[string]bool{}
	root := x.Run(prefix) // the prefix itself is checked step by step
	seen[root.key] = true
	root.n.Close()
	depth += len(prefix)
	frontier := []node{{prefix}}
	x.States++
	for len(frontier) > 0 {
		cur := frontier[0]
		frontier = frontier[1:]
		in := x.build(cur.hist)
		key0 := in.key
		events := menu(in.n, in.m, cur.hist)
		if final != nil && (len(cur.hist) == depth || len(events) == 0) {
			final(in.n, in.m, cur.hist)
		}
		if len(cur.hist) >= depth {
			in.n.Close()
			continue
		}
		for _, e := range events {
			h := append(append([]Event{}, cur.hist...), e)
			x.step(in, e, h, true)
			x.Transitions++
			if x.Panicked {
				// the guardian process would have exited here: the history ends
				in.n.Close()
				in = x.build(cur.hist)
				continue
			}
			if in.key == key0 {
				if e.Kind == "lb" { // consumed a pending loopback without changing the key? then key must have changed
					ev.Broken("loopback delivery left the state key unchanged")
				}
				continue
			}
			if !seen[in.key] {
				seen[in.key] = true
				x.States++
				if maxStates > 0 && x.States >= maxStates {
					x.R.Cap(fmt.Sprintf("state cap %d reached in config %s", maxStates, x.C.Name))
					in.n.Close()
					return
				}
				frontier = append(frontier, node{h})
				if x.OnNewState != nil {
					x.OnNewState(in, h)
				}
			}
			in.n.Close()
			in = x.build(cur.hist)
		}
		in.n.Close()
	}
}

func (x *Explorer) build(hist []Event) *inst {
	x.Builds++
	in := x.fresh()
	for i, e := range hist {
		x.step(in, e, hist[:i+1], false)
	}
	return in
}

// Run executes one history with all oracles on every step (used by permutation mode, replay and
// the determinism self-test). It returns the instance for final-state inspection.
func (x *Explorer) Run(hist []Event) *inst {
	in := x.fresh()
	for i, e := range hist {
		x.step(in, e, hist[:i+1], true)
		x.Transitions++
	}
	return in
}

// StepUnchecked drives the instance one more event without oracles and returns the outputs.
func (x *Explorer) StepUnchecked(in *inst, e Event) Out {
	input := x.C.Materialise(in.n, e)
	if e.Kind == "tick" {
		vtime.Advance(time.Duration(e.DtSec) * time.Second)
	}
	in.m.Apply(e, input, in.store)
	var out Out
	if e.Kind == "budget" {
		in.n.P.VerifSetRetryCount(hex.EncodeToString(x.C.Msgs[e.M].OwnDigest()), uint(e.DtSec))
	} else {
		out = in.n.Step(input)
	}
	in.store = in.n.Store()
	return out
}

func (in *inst) Node() *Node   { return in.n }
func (in *inst) Model() *Model { return in.m }
func (in *inst) Key() string   { return in.key }
func (in *inst) Close()        { in.n.Close() }

// SelfTest replays one history twice and demands identical observations (state keys).
func (x *Explorer) SelfTest(hist []Event) {
	save := x.Oracles
	x.Oracles = map[string]bool{}
	a := x.Run(hist)
	ka := a.key
	a.Close()
	b := x.Run(hist)
	kb := b.key
	b.Close()
	x.Oracles = save
	if ka != kb {
		ev.Broken("determinism self-test failed: the same history produced two different state keys\n%s\n%s", ka, kb)
	}
}
