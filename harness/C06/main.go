// C06: VerifySignatures accepts exactly valid, ordered, in-set signatures.
// Exhaustive enumeration of signature sequences over small guardian lists (with and without
// repeated addresses) and of every single-step corruption of valid signature lists for n=19, 255,
// against the real (*VAA).VerifySignatures; the oracle is an independent predicate.
// The same binary is also built inside the explorer-backend module, where the vaa package
// resolves to the node version pinned by explorer-backend/go.mod.
package main

import (
	"encoding/binary"
	"fmt"
	"math/big"
	"os"
	"os/exec"
	"path/filepath"
	"sync/atomic"
	"time"

	"github.com/alephium/wormhole-fork/node/pkg/vaa"
	"github.com/alephium/wormhole-fork/node/verifh/ev"
	"github.com/alephium/wormhole-fork/node/verifh/keys"
	"github.com/alephium/wormhole-fork/node/verifh/mc"
	"github.com/alephium/wormhole-fork/node/verifh/vaahist"
	"github.com/ethereum/go-ethereum/common"
	"github.com/ethereum/go-ethereum/crypto"
)

var r *ev.Run

const outsider = 1000

func body() *vaa.VAA {
	v := &vaa.VAA{Version: 1, GuardianSetIndex: 2, Timestamp: time.Unix(1700000000, 0), Nonce: 5, Sequence: 77,
		ConsistencyLevel: 1, EmitterChain: 255, TargetChain: 2, Payload: []byte{1, 2, 3, 4}}
	v.EmitterAddress[31] = 9
	return v
}

// ownDigest: body layout written from the statement, independent of the package's serializer.
func ownDigest(v *vaa.VAA) []byte {
	b := make([]byte, 0, 64)
	var t [8]byte
	binary.BigEndian.PutUint32(t[:4], uint32(v.Timestamp.Unix()))
	b = append(b, t[:4]...)
	binary.BigEndian.PutUint32(t[:4], v.Nonce)
	b = append(b, t[:4]...)
	binary.BigEndian.PutUint16(t[:2], uint16(v.EmitterChain))
	b = append(b, t[:2]...)
	binary.BigEndian.PutUint16(t[:2], uint16(v.TargetChain))
	b = append(b, t[:2]...)
	b = append(b, v.EmitterAddress[:]...)
	binary.BigEndian.PutUint64(t[:], v.Sequence)
	b = append(b, t[:]...)
	b = append(b, v.ConsistencyLevel)
	b = append(b, v.Payload...)
	return crypto.Keccak256(crypto.Keccak256(b))
}

// predicate is the oracle: in range, strictly increasing, positional match, no address twice.
func predicate(digest []byte, sigs []*vaa.Signature, list []common.Address) bool {
	last := -1
	seen := map[common.Address]bool{}
	for _, s := range sigs {
		i := int(s.Index)
		if i >= len(list) || i <= last {
			return false
		}
		last = i
		pk, err := crypto.Ecrecover(digest, s.Signature[:])
		if err != nil {
			return false
		}
		a := common.BytesToAddress(crypto.Keccak256(pk[1:])[12:])
		if a != list[i] || seen[a] {
			return false
		}
		seen[a] = true
	}
	return true
}

type elem struct {
	Idx     int // claimed guardian index
	Signer  int // key id that signs
	Corrupt int // 0 none, 1 signs a digest of a body with one bit flipped, 2 r bit flip, 3 s bit flip, 4.. v values
}

var vvals = []byte{2, 3, 27, 28, 255, 4}

// zeroID in a guardian list stands for the all-zero address (a slot no key can sign for); a "signature by"
// zeroID is 65 zero bytes. Corruption kinds beyond the recovery-byte values make a signature that recovers
// to NO key at all: all-zero, r = 0, r = the group order.
const zeroID = -7

var secpN = []byte{0xff, 0xff, 0xff, 0xff, 0xff, 0xff, 0xff, 0xff, 0xff, 0xff, 0xff, 0xff, 0xff, 0xff, 0xff, 0xfe, 0xba, 0xae, 0xdc, 0xe6, 0xaf, 0x48, 0xa0, 0x3b, 0xbf, 0xd2, 0x5e, 0x8c, 0xd0, 0x36, 0x41, 0x41}

func addrsOf(list []int) []common.Address {
	out := make([]common.Address, len(list))
	for i, id := range list {
		if id != zeroID {
			out[i] = keys.Addr(id)
		}
	}
	return out
}

func mkSig(e elem, digest, otherDigest []byte) *vaa.Signature {
	d := digest
	if e.Corrupt == 1 {
		d = otherDigest
	}
	s := &vaa.Signature{Index: uint8(e.Idx)}
	if e.Signer == zeroID {
		return s
	}
	raw := keys.Sign(e.Signer, d)
	copy(s.Signature[:], raw)
	nv := 4 + len(vvals)
	switch {
	case e.Corrupt == nv: // all-zero signature
		s.Signature = [65]byte{}
	case e.Corrupt == nv+1: // r = 0
		copy(s.Signature[:32], make([]byte, 32))
	case e.Corrupt == nv+2: // r = group order
		copy(s.Signature[:32], secpN)
	case e.Corrupt == nv+3:
		// NOT a corruption: the other encoding of the same signature, (r, n-s, v^1). It recovers to the same
		// address over the same digest (crypto.Ecrecover and the EVM precompile accept it), so it counts.
		n := new(big.Int).SetBytes(secpN)
		hs := new(big.Int).Sub(n, new(big.Int).SetBytes(s.Signature[32:64]))
		hb := hs.Bytes()
		copy(s.Signature[32:64], make([]byte, 32))
		copy(s.Signature[64-len(hb):64], hb)
		s.Signature[64] ^= 1
	case e.Corrupt == 2:
		s.Signature[3] ^= 0x10
	case e.Corrupt == 3:
		s.Signature[40] ^= 0x01
	case e.Corrupt >= 4 && e.Corrupt < nv:
		s.Signature[64] = vvals[e.Corrupt-4]
	}
	return s
}

var evals, accepted, rejected int64

type caseRec struct {
	List []int  `json:"list_key_ids"`
	Seq  []elem `json:"signatures"`
	Note string `json:"note,omitempty"`
}

func run(list []int, seq []elem, note string, flipBody bool) {
	atomic.AddInt64(&evals, 1)
	v := body()
	digest := ownDigest(v)
	ov := body()
	ov.Payload = []byte{1, 2, 3, 5}
	od := ownDigest(ov)
	for _, e := range seq {
		v.Signatures = append(v.Signatures, mkSig(e, digest, od))
	}
	if flipBody {
		v.Sequence ^= 1 // signatures were made over the original body
		digest = ownDigest(v)
	}
	addrs := addrsOf(list)
	want := predicate(digest, v.Signatures, addrs)
	var got bool
	func() {
		defer func() {
			if p := recover(); p != nil {
				r.Violation("panic in VerifySignatures", fmt.Sprint(p), caseRec{list, seq, note})
			}
		}()
		got = v.VerifySignatures(addrs)
	}()
	if got {
		atomic.AddInt64(&accepted, 1)
	} else {
		atomic.AddInt64(&rejected, 1)
	}
	if got != want {
		kind := "accepts what the predicate rejects"
		if want {
			kind = "rejects what the predicate accepts"
		}
		cls := classify(list, seq, flipBody)
		r.Violation("verify "+kind+": "+cls, note, caseRec{list, seq, note})
	}
}

// classify names the shape of a failing case so that known-finding keys are specific.
func classify(list []int, seq []elem, flip bool) string {
	if flip {
		return "body bit flipped"
	}
	rep := false
	m := map[int]bool{}
	for _, k := range list {
		if m[k] {
			rep = true
		}
		m[k] = true
	}
	s := fmt.Sprintf("n=%d repeats=%v sigs=%d", len(list), rep, len(seq))
	last := -1
	for _, e := range seq {
		switch {
		case e.Idx >= len(list):
			return s + " index out of range"
		case e.Idx == last:
			return s + " duplicate index"
		case e.Idx < last:
			return s + " descending index"
		case e.Corrupt != 0:
			return s + fmt.Sprintf(" corrupted signature kind %d", e.Corrupt)
		case list[e.Idx] != e.Signer:
			return s + " signer is not the key at the claimed index"
		}
		last = e.Idx
	}
	return s + " well-formed"
}

func smallLists() [][]int {
	return [][]int{
		{}, {0}, {0, 1}, {0, 0},
		{0, 1, 2}, {0, 0, 1}, {0, 1, 0}, {1, 0, 0}, {0, 0, 0},
		{0, 1, 2, 3}, {0, 1, 0, 1}, {0, 0, 1, 2}, {0, 1, 2, 0}, {0, 1, 1, 2},
		// lists with an all-zero address slot (an unset / burnt guardian key): nothing can sign for it
		{zeroID}, {zeroID, 0}, {0, zeroID}, {zeroID, zeroID}, {0, zeroID, 1}, {0, 1, zeroID, 2},
	}
}

func main() {
	r = ev.Start("C06", "exploration")
	variant := "node tree"
	if os.Getenv("VERIF_SUB") != "" {
		variant = "explorer pin"
	}
	// the explorer-pin variant runs concurrently as a sub-process
	var auxCmd *exec.Cmd
	auxOut := filepath.Join(os.Getenv("VERIF_SCRATCH"), "c06-explorer.json")
	if os.Getenv("VERIF_SUB") == "" {
		aux := os.Getenv("VERIF_AUX_C06")
		if aux == "" {
			ev.Broken("explorer-backend build of the C06 harness missing")
		}
		auxCmd = exec.Command(aux)
		auxCmd.Env = append(os.Environ(), "VERIF_SUB="+auxOut)
		auxCmd.Stdout, auxCmd.Stderr = os.Stdout, os.Stderr
		if err := auxCmd.Start(); err != nil {
			ev.Broken("explorer-backend variant does not start: %v", err)
		}
	}
	// ---- operation histories on one VAA object: the verdict is a function of the current field values alone
	vaahist.Explore(r, "C06", r.Pick(4, 5))
	// ---- small lists
	nCorrupt := 4 + len(vvals) + 4
	for _, list := range smallLists() {
		n := len(list)
		idxs := append(keysRange(n+1), 255)
		signers := []int{0, 1, 2, 3, outsider}
		for _, id := range list {
			if id == zeroID {
				signers = []int{0, 1, 2, outsider, zeroID}
				break
			}
		}
		var elemsFull, elemsPlain []elem
		for _, ix := range idxs {
			for _, sg := range signers {
				for c := 0; c < nCorrupt; c++ {
					e := elem{ix, sg, c}
					elemsFull = append(elemsFull, e)
					if c == 0 {
						elemsPlain = append(elemsPlain, e)
					}
				}
			}
		}
		// length 0
		run(list, nil, "empty", false)
		// length 1..2: full element alphabet
		maxFull := 2
		for L := 1; L <= maxFull; L++ {
			rad := make([]int, L)
			for i := range rad {
				rad[i] = len(elemsFull)
			}
			total := mc.ProductSize(rad)
			mc.ParallelFor(total, func(i int) {
				ix := mc.Unrank(rad, i)
				seq := make([]elem, L)
				for k, j := range ix {
					seq[k] = elemsFull[j]
				}
				run(list, seq, "", false)
			})
		}
		// length 3..min(n+1,4): index x signer product without corruption
		maxL := n + 1
		if maxL > 4 {
			maxL = 4
		}
		if !r.Thorough() && maxL > 3 {
			maxL = 3 // quick: uncorrupted products up to length 3; length-4 cases come from the valid-subset corruptions below
		}
		for L := 3; L <= maxL; L++ {
			rad := make([]int, L)
			for i := range rad {
				rad[i] = len(elemsPlain)
			}
			total := mc.ProductSize(rad)
			mc.ParallelFor(total, func(i int) {
				ix := mc.Unrank(rad, i)
				seq := make([]elem, L)
				for k, j := range ix {
					seq[k] = elemsPlain[j]
				}
				run(list, seq, "", false)
			})
		}
		// every valid ascending subset with every single corruption at every position + body flip
		for mask := 1; mask < 1<<n; mask++ {
			var seq []elem
			for i := 0; i < n; i++ {
				if mask&(1<<i) != 0 {
					seq = append(seq, elem{i, list[i], 0})
				}
			}
			run(list, seq, "valid subset", false)
			run(list, seq, "valid subset, body flipped", true)
			for p := range seq {
				for c := 1; c < nCorrupt; c++ {
					m := append([]elem{}, seq...)
					m[p].Corrupt = c
					run(list, m, "single corruption", false)
				}
			}
		}
	}
	r.Set("small_list_shapes", len(smallLists()))

	// ---- large lists
	bigNs := []int{5, 6, 7, 8, 9, 10, 11, 12, 13, 14, 15, 16, 17, 18, 19, 20, 64, 128, 255}
	for _, n := range bigNs {
		list := keysRange(n)
		q := 2*n/3 + 1
		var bases [][]elem
		mk := func(start, ln int) []elem {
			var s []elem
			for i := start; i < start+ln && i < n; i++ {
				s = append(s, elem{i, i, 0})
			}
			return s
		}
		lens := []int{1, 2, q - 1, q, q + 1, n}
		for _, ln := range lens {
			for _, st := range []int{0, (n - ln) / 2, n - ln} {
				if st >= 0 && st+ln <= n {
					bases = append(bases, mk(st, ln))
				}
			}
		}
		// spread (non-contiguous) quorum subsets
		var spread []elem
		for i := 0; i < n && len(spread) < q; i++ {
			if i%3 != 2 || n-i <= q-len(spread) {
				spread = append(spread, elem{i, i, 0})
			}
		}
		bases = append(bases, spread)
		for i := 0; i < n; i++ { // all single signers
			bases = append(bases, []elem{{i, i, 0}})
		}
		if n != 19 && n != 255 && !r.Thorough() {
			// intermediate sizes (quick): quorum runs at both ends and the spread subset, every corruption
			bases = [][]elem{mk(0, q), mk(n-q, q), mk(0, n), spread}
		}
		if n == 255 && !r.Thorough() {
			// quick tier: n=255 corruptions only on the spread quorum and the boundary runs at the start
			bases = append([][]elem{mk(0, q), mk(n-q, q), spread}, bases[len(bases)-n:]...)
		}
		type job struct {
			seq  []elem
			note string
			flip bool
		}
		var jobs []job
		seenJ := map[string]bool{}
		addJ := func(s []elem, note string, flip bool) {
			k := fmt.Sprint(s, flip)
			if seenJ[k] {
				return
			}
			seenJ[k] = true
			jobs = append(jobs, job{s, note, flip})
		}
		for _, b := range bases {
			addJ(b, "valid", false)
			addJ(b, "body flipped", true)
			step := 1
			if len(b) > 40 && !r.Thorough() {
				step = len(b) / 12 // quick: 12 evenly spaced positions plus both ends
			}
			for p := 0; p < len(b); p++ {
				if step > 1 && p%step != 0 && p != len(b)-1 && p != 1 {
					continue
				}
				cp := func() []elem { return append([]elem{}, b...) }
				if p+1 < len(b) {
					m := cp()
					m[p], m[p+1] = m[p+1], m[p]
					addJ(m, "swap adjacent", false)
					m = cp()
					m[p].Idx, m[p+1].Idx = m[p+1].Idx, m[p].Idx
					addJ(m, "swap indices only", false)
				}
				m := append(append(append([]elem{}, b[:p+1]...), b[p]), b[p+1:]...)
				addJ(m, "duplicate one", false)
				for _, ni := range []int{b[p].Idx - 1, b[p].Idx + 1, 255, n} {
					if ni < 0 || ni > 255 {
						continue
					}
					m = cp()
					m[p].Idx = ni
					addJ(m, "re-index one", false)
				}
				m = cp()
				m[p].Signer = outsider
				addJ(m, "outsider signs", false)
				m = cp()
				m[p].Signer = (b[p].Signer + 1) % n
				addJ(m, "other member signs", false)
				for c := 1; c < nCorrupt; c++ {
					m = cp()
					m[p].Corrupt = c
					addJ(m, "corrupt signature", false)
				}
			}
		}
		mc.ParallelFor(len(jobs), func(i int) { run(list, jobs[i].seq, jobs[i].note, jobs[i].flip) })
		r.Set(fmt.Sprintf("n%d_cases", n), len(jobs))
		if n == 19 {
			r.Sample(caseRec{list, jobs[len(jobs)/2].seq, jobs[len(jobs)/2].note})
		}
	}
	// ---- large lists with ONE repeated address at boundary positions (word / byte boundaries of any index
	// bookkeeping): the repeated guardian signs at both positions, alone and between other valid signers
	for _, n := range []int{9, 33, 66, 72, 130, 255} {
		pos := []int{0, 1, 7, 8, 31, 32, 33, 63, 64, 65, 68, 127, 128, 129, 200, 254}
		var jobs [][2]int
		for a := 0; a < len(pos); a++ {
			for b := a + 1; b < len(pos); b++ {
				if pos[b] < n {
					jobs = append(jobs, [2]int{pos[a], pos[b]})
				}
			}
		}
		mc.ParallelFor(len(jobs), func(ji int) {
			i, j := jobs[ji][0], jobs[ji][1]
			list := keysRange(n)
			list[j] = list[i] // the guardian at i also sits at j
			run(list, []elem{{i, list[i], 0}, {j, list[i], 0}}, "repeated address signs at both of its positions", false)
			run(list, []elem{{i, list[i], 0}}, "repeated address signs once", false)
			run(list, []elem{{j, list[i], 0}}, "repeated address signs at its second position only", false)
			if j-i > 1 {
				mid := (i + j) / 2
				run(list, []elem{{i, list[i], 0}, {mid, list[mid], 0}, {j, list[i], 0}}, "repeated address signs at both positions with another signer in between", false)
			}
		})
		r.Add("repeat_boundary_cases", len(jobs)*4)
	}
	r.Sample(caseRec{[]int{0, 0, 1}, []elem{{0, 0, 0}, {1, 0, 0}}, "repeated address signs at two indices -> must be rejected"})
	r.Set("evaluations", int(evals))
	r.Set("distinct_nontrivial", int(evals)) // every enumerated case is a distinct (list, sequence) pair; all but the empty ones carry >=1 signature
	r.Set("accepted", int(accepted))
	r.Set("rejected", int(rejected))
	r.Set("variant", variant)
	r.Set("rule", "distinct (guardian list shape, signature sequence) pairs: 14 list shapes of length 0..4 incl. repeated addresses x all sequences of length <=2 over (index 0..n,255) x (4 keys + outsider) x 9 corruption kinds, all uncorrupted sequences of length 3..min(n+1,4), every valid subset with every single corruption; n in 5..20, 64, 128 (quorum runs at both ends, full set, spread subset) and n=19, n=255 in full: runs/spread subsets of sizes 1,2,q-1,q,q+1,n at 3 placements, all single signers, each with every single-step corruption (quick tier samples 12 positions on runs longer than 40). Enumeration is duplicate-free by construction; accepted/rejected counts show both outcomes occur.")
	if os.Getenv("VERIF_SUB") == "" {
		if err := auxCmd.Wait(); err != nil {
			ev.Broken("explorer-backend variant failed: %v", err)
		}
		r.Merge(auxOut, "explorer-pin: ")
	}
	r.Assume("crypto.Ecrecover (go-ethereum secp256k1) is the trusted primitive shared by oracle and implementation")
	r.Finish()
}

func keysRange(n int) []int { return keys.Range(0, n) }
