// xquorum prints, as compiled into the explorer backend (node module version pinned by explorer-backend/go.mod,
// not ../node): CalculateQuorum(0..255), and the explorer's USE of it - for guardian sets of n members and VAAs
// carrying s valid, ascending signatures of that set, whether the real gossip consumer (vaaGossipConsumer.Push with
// the real GuardianSets and Deduplicator) hands the VAA on for persistence.
package main

import (
	"context"
	"crypto/ecdsa"
	"encoding/json"
	"os"
	"time"

	"github.com/alephium/wormhole-fork/explorer-backend/deduplicator"
	"github.com/alephium/wormhole-fork/explorer-backend/guardiansets"
	xproc "github.com/alephium/wormhole-fork/explorer-backend/processor"
	"github.com/alephium/wormhole-fork/node/pkg/common"
	"github.com/alephium/wormhole-fork/node/pkg/processor"
	"github.com/alephium/wormhole-fork/node/pkg/vaa"
	"github.com/eko/gocache/v3/cache"
	"github.com/eko/gocache/v3/store"
	ethcommon "github.com/ethereum/go-ethereum/common"
	"github.com/ethereum/go-ethereum/crypto"
	gocache "github.com/patrickmn/go-cache"
	"go.uber.org/zap"
)

type use struct {
	N, S   int
	Queued bool
	Err    string `json:",omitempty"`
}

func key(i int) *ecdsa.PrivateKey {
	k, err := crypto.ToECDSA(crypto.Keccak256([]byte{'x', 'q', byte(i), byte(i >> 8)}))
	if err != nil {
		panic(err)
	}
	return k
}

func main() {
	t := make([]int, 256)
	for n := 0; n < 256; n++ {
		t[n] = processor.CalculateQuorum(n)
	}
	ks := make([]*ecdsa.PrivateKey, 255)
	addrs := make([]ethcommon.Address, 255)
	for i := range ks {
		ks[i] = key(i)
		addrs[i] = crypto.PubkeyToAddress(ks[i].PublicKey)
	}
	var uses []use
	seq := uint64(0)
	for _, n := range []int{1, 2, 3, 4, 5, 6, 7, 8, 9, 10, 11, 12, 13, 14, 15, 16, 17, 18, 19, 20, 21, 30, 63, 64, 66, 99, 128, 129, 192, 254, 255} {
		q := 2*n/3 + 1
		var ss []int
		if n <= 21 {
			for s := 0; s <= n; s++ {
				ss = append(ss, s)
			}
		} else {
			ss = []int{1, n / 2, q - 2, q - 1, q, q + 1, n}
		}
		gsC := make(chan *common.GuardianSet, 1024)
		gs := guardiansets.NewGuardianSets([]*common.GuardianSet{{Index: 0, Keys: addrs[:n]}}, "/nonexistent/verif.ipc", zap.NewNop(), time.Hour, ethcommon.Address{}, gsC)
		for _, s := range ss {
			if s < 0 || s > n {
				continue
			}
			seq++
			v := &vaa.VAA{Version: 1, Timestamp: time.Unix(1700000000, 0), Sequence: seq, EmitterChain: 2, TargetChain: 255, Payload: []byte{1, byte(seq)}}
			v.EmitterAddress[31] = 7
			// the LAST s members sign (the highest indices: the ones most likely to be cut off by a wrong bound)
			for i := n - s; i < n; i++ {
				v.AddSignature(ks[i], uint8(i))
			}
			b, err := v.Marshal()
			if err != nil {
				panic(err)
			}
			c := gocache.New(5*time.Minute, 10*time.Minute)
			queue := make(chan *xproc.Message, 4)
			cons := xproc.NewVAAGossipConsumer(gs, deduplicator.New(cache.New[bool](store.NewGoCache(c)), zap.NewNop()), queue, zap.NewNop())
			u := use{N: n, S: s}
			if err := cons.Push(context.Background(), v, b); err != nil {
				u.Err = err.Error()
			}
			u.Queued = len(queue) > 0
			uses = append(uses, u)
		}
	}
	json.NewEncoder(os.Stdout).Encode(map[string]interface{}{"quorum": t, "use": uses})
}
