// xquorum prints CalculateQuorum(0..255) as compiled into the explorer backend, i.e. from the
// node module version pinned by explorer-backend/go.mod (not ../node).
package main

import (
	"encoding/json"
	"os"

	"github.com/alephium/wormhole-fork/node/pkg/processor"
)

func main() {
	t := make([]int, 256)
	for n := 0; n < 256; n++ {
		t[n] = processor.CalculateQuorum(n)
	}
	json.NewEncoder(os.Stdout).Encode(t)
}
