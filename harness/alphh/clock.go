package alphh

import (
	"time"

	"github.com/alephium/wormhole-fork/node/verifh/vtime"
)

func vnow() time.Time { return vtime.Now() }
