// Package alphh binds the real Alephium watcher (NewAlephiumWatcher(...).Run under a real
// supervisor, real client/SDK code) to a simulated full node: an in-memory http.RoundTripper that
// implements every endpoint client.go uses over a simulated chain whose every answer the harness
// owns. Shared by the C08 and C09 harnesses.
package alphh

import (
	"bytes"
	"encoding/hex"
	"encoding/json"
	"fmt"
	"io"
	"net/http"
	"strconv"
	"strings"
	"sync"

	"github.com/btcsuite/btcutil/base58"
)

// Val is the JSON form of an SDK Val.
type Val struct {
	Type  string      `json:"type"`
	Value interface{} `json:"value"`
}

func U256(s string) Val    { return Val{"U256", s} }
func ByteVec(h string) Val { return Val{"ByteVec", h} }

type Block struct {
	Hash   string `json:"hash"`
	Height int32  `json:"height"`
	TsMs   int64  `json:"timestamp"`
	Main   bool   `json:"main"`
}

// Event is one contract event as the node stores it.
type Event struct {
	BlockHash string `json:"blockHash"`
	TxId      string `json:"txId"`
	Contract  string `json:"contractAddress"` // base58 address of the emitting contract
	Index     int32  `json:"eventIndex"`
	Fields    []Val  `json:"fields"`
	Tag       string `json:"tag,omitempty"` // harness label (not sent)
}

// TokenAnswer is what a multicall on a token contract returns.
type TokenAnswer struct {
	Kind     string // ok | second-failed | all-failed | wrong-arity | wrong-type | api-error | two-results
	Symbol   string
	Name     string
	Decimals int
}

type Sim struct {
	mu       sync.Mutex
	Gov      string // governance (core) contract address
	Blocks   map[string]*Block
	Height   int32
	Log      []Event            // event log of the governance contract, append-only
	TxEvents map[string][]Event // events by tx id, across all contracts and blocks
	TxBlock  map[string]string  // tx id -> block hash it is confirmed in ("" : not found / mempool)
	Tokens   map[string]TokenAnswer
	PageSize int
	Synced   bool
	// NotFoundWhenEmpty: the current-count endpoint answers 404 while the contract's event log is empty (fresh deployment)
	NotFoundWhenEmpty bool
	// CountLag: the current-count endpoint answers len(Log)-CountLag (count moving backwards)
	CountLag int
	// MidTick are mutations executed right after the next current-count answer (events arriving
	// between the count request and the page requests).
	MidTick []func(s *Sim)
	// FailNext[endpoint] = number of upcoming calls of that endpoint that fail with HTTP 500
	FailNext map[string]int
	// Hold[endpoint]: requests to that endpoint park inside the transport until the harness releases them
	// (a slow answer: lets another goroutine of the watcher run in the middle of a reaction)
	Hold map[string]chan struct{}
	// request log
	Reqs   []string
	nreq   uint64
	PerKey map[string]int // identical requests in the current step
}

// FreshContract404 makes every Sim created from now on answer 404 for the count of an empty log.
var FreshContract404 bool

func NewSim(gov string) *Sim {
	return &Sim{Gov: gov, Blocks: map[string]*Block{}, TxEvents: map[string][]Event{}, TxBlock: map[string]string{}, Tokens: map[string]TokenAnswer{},
		PageSize: 100, Synced: true, FailNext: map[string]int{}, PerKey: map[string]int{}, Hold: map[string]chan struct{}{}, NotFoundWhenEmpty: FreshContract404}
}

func (s *Sim) Activity() uint64 {
	s.mu.Lock()
	defer s.mu.Unlock()
	return s.nreq
}

// BeginStep clears the per-step request accounting.
func (s *Sim) BeginStep() {
	s.mu.Lock()
	s.Reqs = nil
	s.PerKey = map[string]int{}
	s.mu.Unlock()
}

// MaxIdentical returns the largest number of identical requests in the current step.
func (s *Sim) MaxIdentical() (int, string) {
	s.mu.Lock()
	defer s.mu.Unlock()
	best, key := 0, ""
	for k, n := range s.PerKey {
		if n > best {
			best, key = n, k
		}
	}
	return best, key
}

func (s *Sim) StepRequests() []string {
	s.mu.Lock()
	defer s.mu.Unlock()
	return append([]string{}, s.Reqs...)
}

// SpinLimit: a step that issues more identical requests than this is cut off: the transport starts
// failing every request so that the spinning loop can end and the harness reports the livelock.
const SpinLimit = 300

func jsonResp(req *http.Request, code int, v interface{}) *http.Response {
	b, _ := json.Marshal(v)
	return &http.Response{StatusCode: code, Status: fmt.Sprintf("%d", code), Proto: "HTTP/1.1", ProtoMajor: 1, ProtoMinor: 1,
		Header: http.Header{"Content-Type": []string{"application/json"}}, Body: io.NopCloser(bytes.NewReader(b)), ContentLength: int64(len(b)), Request: req}
}

func apiErr(req *http.Request, code int, msg string) *http.Response {
	return jsonResp(req, code, map[string]string{"detail": msg})
}

func (s *Sim) RoundTrip(req *http.Request) (*http.Response, error) {
	s.mu.Lock()
	defer s.mu.Unlock()
	s.nreq++
	path := req.URL.Path
	q := req.URL.Query()
	key := req.Method + " " + path + "?" + req.URL.RawQuery
	s.Reqs = append(s.Reqs, key)
	s.PerKey[key]++
	if s.PerKey[key] > SpinLimit {
		return apiErr(req, 500, "verif: spin limit"), nil
	}
	ep := endpointOf(path)
	if ch := s.Hold[ep]; ch != nil {
		s.mu.Unlock()
		select {
		case <-ch:
		case <-req.Context().Done():
		}
		s.mu.Lock()
	}
	if s.FailNext[ep] > 0 {
		s.FailNext[ep]--
		return apiErr(req, 500, "injected fault"), nil
	}
	switch {
	case path == "/infos/version":
		return jsonResp(req, 200, map[string]string{"version": "v2.5.0"}), nil
	case path == "/infos/self-clique":
		return jsonResp(req, 200, map[string]interface{}{"cliqueId": "00", "nodes": []interface{}{}, "selfReady": true, "synced": s.Synced}), nil
	case path == "/blockflow/chain-info":
		return jsonResp(req, 200, map[string]int32{"currentHeight": s.Height}), nil
	case strings.HasPrefix(path, "/blockflow/headers/"):
		b := s.Blocks[strings.TrimPrefix(path, "/blockflow/headers/")]
		if b == nil {
			return apiErr(req, 404, "block not found"), nil
		}
		return jsonResp(req, 200, map[string]interface{}{"hash": b.Hash, "timestamp": b.TsMs, "chainFrom": 0, "chainTo": 0, "height": b.Height, "deps": []string{}}), nil
	case path == "/blockflow/is-block-in-main-chain":
		b := s.Blocks[q.Get("blockHash")]
		if b == nil {
			return apiErr(req, 404, "block not found"), nil
		}
		return jsonResp(req, 200, b.Main), nil
	case strings.HasPrefix(path, "/events/contract/") && strings.HasSuffix(path, "/current-count"):
		addr := strings.TrimSuffix(strings.TrimPrefix(path, "/events/contract/"), "/current-count")
		if addr != s.Gov {
			return apiErr(req, 404, "contract not found"), nil
		}
		n := len(s.Log) - s.CountLag
		if n < 0 {
			n = 0
		}
		if n == 0 && s.NotFoundWhenEmpty {
			// a real full node answers 404 for the event count of a contract that has not emitted anything yet
			return apiErr(req, 404, "contract events count not found"), nil
		}
		mid := s.MidTick
		s.MidTick = nil
		for _, f := range mid {
			f(s)
		}
		return jsonResp(req, 200, n), nil
	case strings.HasPrefix(path, "/events/contract/"):
		addr := strings.TrimPrefix(path, "/events/contract/")
		if addr != s.Gov {
			return apiErr(req, 404, "contract not found"), nil
		}
		start, _ := strconv.Atoi(q.Get("start"))
		if start > len(s.Log) {
			start = len(s.Log)
		}
		end := start + s.PageSize
		if end > len(s.Log) {
			end = len(s.Log)
		}
		evs := []map[string]interface{}{}
		for _, e := range s.Log[start:end] {
			evs = append(evs, map[string]interface{}{"blockHash": e.BlockHash, "txId": e.TxId, "eventIndex": e.Index, "fields": e.Fields})
		}
		return jsonResp(req, 200, map[string]interface{}{"events": evs, "nextStart": end}), nil
	case strings.HasPrefix(path, "/events/tx-id/"):
		tx := strings.TrimPrefix(path, "/events/tx-id/")
		evs := []map[string]interface{}{}
		for _, e := range s.TxEvents[tx] {
			evs = append(evs, map[string]interface{}{"blockHash": e.BlockHash, "contractAddress": e.Contract, "eventIndex": e.Index, "fields": e.Fields})
		}
		return jsonResp(req, 200, map[string]interface{}{"events": evs}), nil
	case path == "/transactions/status":
		bh, ok := s.TxBlock[q.Get("txId")]
		if !ok {
			return jsonResp(req, 200, map[string]string{"type": "TxNotFound"}), nil
		}
		if bh == "" {
			return jsonResp(req, 200, map[string]string{"type": "MemPooled"}), nil
		}
		return jsonResp(req, 200, map[string]interface{}{"type": "Confirmed", "blockHash": bh, "txIndex": 0, "chainConfirmations": 1, "fromGroupConfirmations": 1, "toGroupConfirmations": 1}), nil
	case path == "/contracts/multicall-contract":
		var body struct {
			Calls []struct {
				Address     string `json:"address"`
				MethodIndex int    `json:"methodIndex"`
			} `json:"calls"`
		}
		b, _ := io.ReadAll(req.Body)
		json.Unmarshal(b, &body)
		if len(body.Calls) == 0 {
			return apiErr(req, 400, "no calls"), nil
		}
		ans, ok := s.Tokens[body.Calls[0].Address]
		if !ok {
			return apiErr(req, 404, "contract does not exist"), nil
		}
		okRes := func(v Val) map[string]interface{} {
			return map[string]interface{}{"type": "CallContractSucceeded", "returns": []Val{v}, "gasUsed": 1, "contracts": []interface{}{}, "txInputs": []string{}, "txOutputs": []interface{}{}, "events": []interface{}{}}
		}
		fail := map[string]interface{}{"type": "CallContractFailed", "error": "VM execution error"}
		sym, nam, dec := okRes(ByteVec(hex.EncodeToString([]byte(ans.Symbol)))), okRes(ByteVec(hex.EncodeToString([]byte(ans.Name)))), okRes(U256(fmt.Sprint(ans.Decimals)))
		var results []interface{}
		switch ans.Kind {
		case "ok":
			results = []interface{}{sym, nam, dec}
		case "second-failed":
			results = []interface{}{sym, fail, dec}
		case "third-failed":
			results = []interface{}{sym, nam, fail}
		case "all-failed":
			results = []interface{}{fail, fail, fail}
		case "two-results":
			results = []interface{}{sym, nam}
		case "wrong-arity":
			empty := okRes(U256("1"))
			empty["returns"] = []Val{}
			results = []interface{}{sym, empty, dec}
		case "wrong-type":
			results = []interface{}{okRes(U256("5")), nam, okRes(ByteVec("00"))}
		case "api-error":
			return apiErr(req, 500, "multicall failed"), nil
		}
		return jsonResp(req, 200, map[string]interface{}{"results": results}), nil
	}
	return apiErr(req, 404, "verif sim: unknown endpoint "+path), nil
}

func endpointOf(path string) string {
	switch {
	case strings.HasSuffix(path, "/current-count"):
		return "count"
	case strings.HasPrefix(path, "/events/contract/"):
		return "page"
	case strings.HasPrefix(path, "/events/tx-id/"):
		return "events-by-tx"
	case strings.HasPrefix(path, "/blockflow/headers/"):
		return "header"
	case path == "/blockflow/is-block-in-main-chain":
		return "main-chain"
	case path == "/blockflow/chain-info":
		return "height"
	case path == "/transactions/status":
		return "tx-status"
	case path == "/contracts/multicall-contract":
		return "multicall"
	}
	return path
}

// AddressOf returns the base58 contract address of a 32-byte contract id (hex).
func AddressOf(idHex string) string {
	b, _ := hex.DecodeString(idHex)
	return base58.Encode(append([]byte{0x03}, b...))
}

// ---- chain mutation helpers (called by harness events, under no lock contention: the watcher is quiescent)

func (s *Sim) AddBlock(b Block) {
	s.mu.Lock()
	defer s.mu.Unlock()
	bb := b
	s.Blocks[b.Hash] = &bb
}

// Emit records an event; events of the governance contract also enter its event log.
func (s *Sim) Emit(e Event) {
	s.mu.Lock()
	defer s.mu.Unlock()
	s.emit(e)
}

func (s *Sim) emit(e Event) {
	if e.Contract == s.Gov {
		s.Log = append(s.Log, e)
	}
	s.TxEvents[e.TxId] = append(s.TxEvents[e.TxId], e)
	if _, ok := s.TxBlock[e.TxId]; !ok {
		s.TxBlock[e.TxId] = e.BlockHash
	}
}

// EmitLocked is Emit for use inside MidTick mutations (the lock is already held).
func (s *Sim) EmitLocked(e Event) { s.emit(e) }

func (s *Sim) SetHeight(h int32) {
	s.mu.Lock()
	s.Height = h
	s.mu.Unlock()
}

func (s *Sim) Orphan(hash string) {
	s.mu.Lock()
	if b := s.Blocks[hash]; b != nil {
		b.Main = false
	}
	s.mu.Unlock()
}

// Reinclude moves a tx to another (main) block: tx status points there, events-by-tx report the new block.
func (s *Sim) Reinclude(tx, newHash string) {
	s.mu.Lock()
	defer s.mu.Unlock()
	s.TxBlock[tx] = newHash
	old := s.TxEvents[tx]
	moved := append([]Event{}, old...) // the node keeps the events of the orphaned block as well
	seen := map[string]bool{}
	for _, e := range old { // a transaction is in a block at most once: re-including it into the same block again changes nothing
		if e.BlockHash == newHash {
			seen[fmt.Sprint(e.Contract, e.Index, e.Fields)] = true
		}
	}
	for _, e := range old {
		k := fmt.Sprint(e.Contract, e.Index, e.Fields)
		if e.BlockHash == newHash || seen[k] {
			continue
		}
		seen[k] = true
		e.BlockHash = newHash
		moved = append(moved, e)
		if e.Contract == s.Gov {
			s.Log = append(s.Log, e) // the node logs the event again for the new block
		}
	}
	s.TxEvents[tx] = moved
}

// HoldEndpoint makes answers of an endpoint wait; Release lets them through.
func (s *Sim) HoldEndpoint(ep string) {
	s.mu.Lock()
	if s.Hold[ep] == nil {
		s.Hold[ep] = make(chan struct{})
	}
	s.mu.Unlock()
}

func (s *Sim) Release(ep string) {
	s.mu.Lock()
	if ch := s.Hold[ep]; ch != nil {
		close(ch)
		delete(s.Hold, ep)
	}
	s.mu.Unlock()
}

func (s *Sim) ReleaseAll() {
	s.mu.Lock()
	for ep, ch := range s.Hold {
		close(ch)
		delete(s.Hold, ep)
	}
	s.mu.Unlock()
}

func (s *Sim) Fail(endpoint string, n int) {
	s.mu.Lock()
	s.FailNext[endpoint] += n
	s.mu.Unlock()
}

func (s *Sim) Snapshot() (height int32, logLen int) {
	s.mu.Lock()
	defer s.mu.Unlock()
	return s.Height, len(s.Log)
}

func (s *Sim) BlockOf(hash string) Block {
	s.mu.Lock()
	defer s.mu.Unlock()
	if b := s.Blocks[hash]; b != nil {
		return *b
	}
	return Block{}
}
