package alphh

import (
	"context"
	"fmt"
	"net/http"
	"strings"
	"sync"
	"time"

	"github.com/alephium/wormhole-fork/node/pkg/alephium"
	"github.com/alephium/wormhole-fork/node/pkg/common"
	gossipv1 "github.com/alephium/wormhole-fork/node/pkg/proto/gossip/v1"
	"github.com/alephium/wormhole-fork/node/pkg/supervisor"
	"github.com/alephium/wormhole-fork/node/verifh/ev"
	"github.com/alephium/wormhole-fork/node/verifh/quiesce"
	"github.com/alephium/wormhole-fork/node/verifh/vtime"
	"go.uber.org/zap"
)

const (
	GovID    = "1111111111111111111111111111111111111111111111111111111111111100"
	BridgeID = "2222222222222222222222222222222222222222222222222222222222222200"
	OtherID  = "3333333333333333333333333333333333333333333333333333333333333300" // some other contract
)

var T0 = time.Unix(1_700_000_000, 0)

// Driver runs the real watcher under a real supervisor against a Sim.
type Driver struct {
	Sim     *Sim
	W       *alephium.Watcher
	MsgC    chan *common.MessagePublication
	ReqC    chan *gossipv1.ObservationRequest
	cancel  context.CancelFunc
	sup     *supervisor.VerifSupervisor
	mu      sync.Mutex
	Runs    int      // how many times Run was entered
	Exits   []string // error text of every Run exit
	running bool
	Mainnet bool
}

func NewDriver(sim *Sim, mainnet bool) *Driver {
	vtime.ResetClock(T0)
	http.DefaultTransport = sim
	d := &Driver{Sim: sim, MsgC: make(chan *common.MessagePublication, 256), ReqC: make(chan *gossipv1.ObservationRequest, 1), Mainnet: mainnet}
	w, err := alephium.NewAlephiumWatcher("http://sim", "", &common.ChainConfig{GroupIndex: 0, Contracts: common.Contracts{Governance: GovID, TokenBridge: BridgeID}},
		"alph", d.MsgC, 1000, d.ReqC, mainnet)
	if err != nil {
		ev.Broken("watcher: %v", err)
	}
	d.W = w
	ctx, cancel := context.WithCancel(context.Background())
	d.cancel = cancel
	d.sup = supervisor.New(ctx, zap.NewNop(), func(ctx context.Context) error {
		if err := supervisor.Run(ctx, "alphwatch", func(ctx context.Context) error {
			d.mu.Lock()
			d.Runs++
			d.running = true
			d.mu.Unlock()
			err := w.Run(ctx)
			d.mu.Lock()
			d.running = false
			d.Exits = append(d.Exits, fmt.Sprint(err))
			d.mu.Unlock()
			return err
		}); err != nil {
			return err
		}
		supervisor.Signal(ctx, supervisor.SignalHealthy)
		<-ctx.Done()
		return ctx.Err()
	})
	d.Quiesce()
	return d
}

func ignore(g quiesce.Goroutine) bool {
	return !(g.Has("pkg/alephium.") || g.Has("pkg/supervisor.") || g.Has("verifh/alphh.") || g.Has("verifh/vtime.") || g.Has("go-sdk"))
}

func (d *Driver) Quiesce() {
	if _, ok := quiesce.Wait(quiesce.Options{Ignore: ignore, Activity: func() uint64 { return vtime.Activity() + d.Sim.Activity() }, MaxSpins: 400000}); !ok {
		ev.Broken("alephium watcher does not become quiescent")
	}
}

func (d *Driver) Running() bool {
	d.mu.Lock()
	defer d.mu.Unlock()
	return d.running
}

func (d *Driver) fire(kind, label string) bool {
	ws := vtime.Find(kind, label)
	if len(ws) == 0 {
		return false
	}
	for _, w := range ws {
		w.Fire()
	}
	d.Quiesce()
	return true
}

// EvTick fires the event-poll ticker; HTick the height-poll ticker.
func (d *Driver) EvTick() bool { return d.fire("ticker", "fetchEvents") }
func (d *Driver) HTick() bool  { return d.fire("ticker", "_fetchHeight") }

// Reobs delivers a re-observation request for a 32-byte tx id (hex).
func (d *Driver) Reobs(txHex string) bool {
	b := make([]byte, 32)
	fmt.Sscanf(txHex, "%x", &b)
	select {
	case d.ReqC <- &gossipv1.ObservationRequest{ChainId: 255, TxHash: b}:
	default:
		return false
	}
	d.Quiesce()
	return true
}

// Restart lets the supervisor restart a dead watcher: GC tick, release the back-off sleeper, GC tick.
func (d *Driver) Restart() {
	for i := 0; i < 6 && !d.Running(); i++ {
		d.fire("ticker", "processor")
		for _, w := range vtime.Find("sleep", "") {
			w.Fire()
		}
		d.Quiesce()
	}
}

func (d *Driver) Advance(dur time.Duration) { vtime.Advance(dur) }

func (d *Driver) Take() []*common.MessagePublication {
	var out []*common.MessagePublication
	for len(d.MsgC) > 0 {
		out = append(out, <-d.MsgC)
	}
	return out
}

// Close ends every goroutine of this execution.
func (d *Driver) Close() {
	d.Sim.ReleaseAll()
	d.cancel()
	for i := 0; i < 50; i++ {
		d.Quiesce()
		any := false
		for _, w := range vtime.Find("sleep", "") {
			w.Fire()
			any = true
		}
		if d.sup.VerifDrain() > 0 {
			any = true
		}
		for len(d.MsgC) > 0 {
			<-d.MsgC
			any = true
		}
		if !any {
			break
		}
	}
}

// ---- event fixtures

type Msg struct {
	Tag      string `json:"tag"`
	Sender   string `json:"sender"` // contract id hex put in the sender field
	Contract string `json:"contract"` // contract id hex of the EMITTING contract
	Index    int32  `json:"event_index"`
	Target   string `json:"target"`
	Seq      string `json:"seq"`
	Nonce    string `json:"nonce"`
	Payload  string `json:"payload"`
	CL       string `json:"cl"`
	Tx       string `json:"tx"`
	NFields  int    `json:"n_fields,omitempty"` // 0: the regular six
}

func (m Msg) Event(blockHash string) Event {
	f := []Val{ByteVec(m.Sender), U256(m.Target), U256(m.Seq), ByteVec(m.Nonce), ByteVec(m.Payload), U256(m.CL)}
	if m.NFields > 0 {
		for len(f) < m.NFields {
			f = append(f, U256("1"))
		}
		f = f[:m.NFields]
	}
	return Event{BlockHash: blockHash, TxId: m.Tx, Contract: AddressOf(m.Contract), Index: m.Index, Fields: f, Tag: m.Tag}
}

func TxID(n int) string    { return fmt.Sprintf("%064x", 0xa000+n) }
func BlockID(n int) string { return fmt.Sprintf("%064x", 0xb000+n) }

func TransferPayload(n byte) string { return "01" + strings.Repeat(fmt.Sprintf("%02x", n), 132) }

// AttestPayload for a token contract id (hex), as token_bridge.ral attestToken encodes it.
func AttestPayload(tokenIDHex string, decimals int, symbol, name string) string {
	pad := func(s string) string { return fmt.Sprintf("%064x", []byte(s)) }
	return "02" + tokenIDHex + "00ff" + fmt.Sprintf("%02x", decimals) + pad(symbol) + pad(name)
}
