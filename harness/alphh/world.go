package alphh

import (
	"encoding/hex"
	"fmt"
	"math/big"
	"strings"
	"time"

	"github.com/alephium/wormhole-fork/node/pkg/common"
)

// Step is one stimulus or chain mutation of a scenario (pure data: a history is a replayable artefact).
type Step struct {
	Op     string `json:"op"` // emit | height | height+ | clock | orphan | reinclude | evtick | htick | reobs | fault | restart | arm-emit | countlag | pagesize
	Msg    *Msg   `json:"msg,omitempty"`
	Block  int    `json:"block,omitempty"`
	Height int32  `json:"height,omitempty"`
	Sec    int    `json:"sec,omitempty"`
	Tx     string `json:"tx,omitempty"`
	EP     string `json:"endpoint,omitempty"`
	N      int    `json:"n,omitempty"`
	Sym    string `json:"symbol,omitempty"` // settoken: the token contract (Tx = contract id) now reports this metadata
	Nam    string `json:"name,omitempty"`
}

func (s Step) String() string {
	switch s.Op {
	case "emit", "arm-emit":
		return fmt.Sprintf("%s(%s in block %d at height %d)", s.Op, s.Msg.Tag, s.Block, s.Height)
	case "height":
		return fmt.Sprintf("height=%d", s.Height)
	case "height+":
		return fmt.Sprintf("height+%d", s.Height)
	case "clock":
		return fmt.Sprintf("clock+%ds", s.Sec)
	case "orphan":
		return fmt.Sprintf("orphan(block %d)", s.Block)
	case "reinclude":
		return fmt.Sprintf("reinclude(tx %s in block %d at height %d)", s.Tx[len(s.Tx)-2:], s.Block, s.Height)
	case "reobs":
		return "reobs(tx " + s.Tx[len(s.Tx)-2:] + ")"
	case "fault", "hold", "release":
		return s.Op + "(" + s.EP + ")"
	case "settoken":
		return fmt.Sprintf("settoken(..%s: %s/%s/%d)", s.Tx[len(s.Tx)-4:], s.Sym, s.Nam, s.N)
	case "countlag", "pagesize":
		return fmt.Sprintf("%s=%d", s.Op, s.N)
	}
	return s.Op
}

// Forward is one message the watcher handed to the signing pipeline.
type Forward struct {
	MP   *common.MessagePublication
	Path string // polling | reobs
	At   int    // step index
}

// World interprets steps against a fresh real watcher.
type World struct {
	D        *Driver
	Sim      *Sim
	Fwd      []Forward
	Died     []string // watcher exits (error texts), in order
	Spins    []string // steps in which the watcher hammered the node API
	stepNo   int
	lastRuns int
}

func NewWorld(mainnet bool, height int32, pageSize int) *World {
	sim := NewSim(AddressOf(GovID))
	sim.Height = height
	sim.PageSize = pageSize
	w := &World{Sim: sim}
	w.D = NewDriver(sim, mainnet)
	w.lastRuns = w.D.Runs
	return w
}

func (w *World) Close() { w.D.Close() }

func blockTs(n int) int64 { return T0.UnixMilli() + int64(n)*7 + 1 }

func (w *World) ensureBlock(n int, height int32) string {
	h := BlockID(n)
	if (w.Sim.BlockOf(h) == Block{}) {
		// a block's timestamp is the wall clock at the time it is mined (plus a unique offset)
		now := vtimeNow().UnixMilli()
		w.Sim.AddBlock(Block{Hash: h, Height: height, TsMs: now + int64(n)*7 + 1, Main: true})
		if cur, _ := w.Sim.Snapshot(); cur < height {
			w.Sim.SetHeight(height)
		}
	}
	return h
}

// Apply performs one step and returns the messages forwarded during it.
func (w *World) Apply(s Step) []Forward {
	w.stepNo++
	w.Sim.BeginStep()
	path := "polling"
	switch s.Op {
	case "emit":
		w.Sim.Emit(s.Msg.Event(w.ensureBlock(s.Block, s.Height)))
	case "arm-emit":
		bh := w.ensureBlock(s.Block, s.Height)
		m := *s.Msg
		w.Sim.mu.Lock()
		w.Sim.MidTick = append(w.Sim.MidTick, func(sm *Sim) { sm.EmitLocked(m.Event(bh)) })
		w.Sim.mu.Unlock()
	case "height":
		w.Sim.SetHeight(s.Height)
	case "height+":
		h, _ := w.Sim.Snapshot()
		w.Sim.SetHeight(h + s.Height)
	case "clock":
		w.D.Advance(time.Duration(s.Sec) * time.Second)
	case "orphan":
		w.Sim.Orphan(BlockID(s.Block))
	case "reinclude":
		w.Sim.Reinclude(s.Tx, w.ensureBlock(s.Block, s.Height))
	case "fault":
		w.Sim.Fail(s.EP, 1)
	case "settoken":
		w.Sim.mu.Lock()
		w.Sim.Tokens[AddressOf(s.Tx)] = TokenAnswer{Kind: "ok", Symbol: s.Sym, Name: s.Nam, Decimals: s.N}
		w.Sim.mu.Unlock()
	case "hold":
		w.Sim.HoldEndpoint(s.EP)
	case "release":
		w.Sim.Release(s.EP)
		w.D.Quiesce()
	case "countlag":
		w.Sim.mu.Lock()
		w.Sim.CountLag = s.N
		w.Sim.mu.Unlock()
	case "pagesize":
		w.Sim.mu.Lock()
		w.Sim.PageSize = s.N
		w.Sim.mu.Unlock()
	case "evtick":
		w.D.EvTick()
	case "htick":
		w.D.HTick()
	case "reobs":
		path = "reobs"
		w.D.Reobs(s.Tx)
	case "restart":
		w.D.Restart()
	default:
		panic("unknown step " + s.Op)
	}
	if n, key := w.Sim.MaxIdentical(); n > SpinLimit {
		w.Spins = append(w.Spins, fmt.Sprintf("step %d (%s): %d identical requests %s", w.stepNo, s.String(), n, key))
	}
	w.D.mu.Lock()
	if len(w.D.Exits) > len(w.Died) {
		w.Died = append(w.Died, w.D.Exits[len(w.Died):]...)
	}
	w.D.mu.Unlock()
	var out []Forward
	for _, mp := range w.D.Take() {
		f := Forward{mp, path, w.stepNo}
		out = append(out, f)
		w.Fwd = append(w.Fwd, f)
	}
	return out
}

// Candidates returns every event (of any contract, any block) whose fields and block timestamp match mp.
func (w *World) Candidates(mp *common.MessagePublication) []Event {
	w.Sim.mu.Lock()
	defer w.Sim.mu.Unlock()
	var out []Event
	for _, evs := range w.Sim.TxEvents {
		for _, e := range evs {
			if len(e.Fields) != 6 {
				continue
			}
			b := w.Sim.Blocks[e.BlockHash]
			if b == nil || b.TsMs != mp.Timestamp.UnixMilli() {
				continue
			}
			if fieldsMatch(e, mp) {
				out = append(out, e)
			}
		}
	}
	return out
}

func fieldsMatch(e Event, mp *common.MessagePublication) bool {
	str := func(v Val) string { s, _ := v.Value.(string); return s }
	num := func(v Val) *big.Int { n, _ := new(big.Int).SetString(str(v), 10); return n }
	if str(e.Fields[0]) != hex.EncodeToString(mp.EmitterAddress[:]) {
		return false
	}
	t, sq, cl := num(e.Fields[1]), num(e.Fields[2]), num(e.Fields[5])
	if t == nil || sq == nil || cl == nil || !t.IsUint64() || !sq.IsUint64() || !cl.IsUint64() {
		return false
	}
	if t.Uint64() != uint64(mp.TargetChain) || sq.Uint64() != mp.Sequence || cl.Uint64() != uint64(mp.ConsistencyLevel) {
		return false
	}
	if str(e.Fields[3]) != fmt.Sprintf("%08x", mp.Nonce) {
		return false
	}
	return strings.EqualFold(str(e.Fields[4]), hex.EncodeToString(mp.Payload))
}

// Judge checks one forwarded message against the simulated chain's ground truth at this moment and
// returns "" or the name of the violated condition.
func (w *World) Judge(f Forward) string {
	cands := w.Candidates(f.MP)
	if len(cands) == 0 {
		return "no event of any block carries these fields with this block timestamp"
	}
	now := vtimeNow().UnixMilli()
	w.Sim.mu.Lock()
	defer w.Sim.mu.Unlock()
	first := ""
	for _, e := range cands {
		b := w.Sim.Blocks[e.BlockHash]
		cl := int32(f.MP.ConsistencyLevel)
		why := ""
		switch {
		case e.Contract != w.Sim.Gov:
			why = "the event was emitted by another contract than the configured core contract"
		case e.Index != 0:
			why = "the event is not the message event (index 0)"
		case hex.EncodeToString(f.MP.EmitterAddress[:]) != BridgeID:
			why = "the caller is not the configured token bridge contract"
		case !b.Main:
			why = "the event's block is not on the main chain"
		case w.Sim.Height < b.Height+cl:
			why = "chain height is below block height + consistency level"
		}
		if why == "" && len(f.MP.Payload) > 0 && f.MP.Payload[0] == 2 {
			if len(f.MP.Payload) != 100 {
				why = "attestation payload has the wrong length"
			} else {
				tok := AddressOf(hex.EncodeToString(f.MP.Payload[1:33]))
				ans, ok := w.Sim.Tokens[tok]
				sym := strings.Trim(string(f.MP.Payload[36:68]), "\x00")
				nam := strings.Trim(string(f.MP.Payload[68:100]), "\x00")
				if !ok || ans.Kind != "ok" || ans.Symbol != sym || ans.Name != nam || ans.Decimals != int(f.MP.Payload[35]) {
					why = "attested metadata differs from what the token contract reports"
				}
			}
		}
		if why == "" && w.D.Mainnet && len(f.MP.Payload) > 0 && f.MP.Payload[0] == 1 {
			hold := int64(cl)
			if hold < 205 {
				hold = 205
			}
			if now < b.TsMs+hold*16000 {
				why = "mainnet transfer forwarded before max(consistency level, 205) block intervals of wall-clock time"
			}
		}
		if why == "" {
			return ""
		}
		if first == "" {
			first = why
		}
	}
	return first
}

func vtimeNow() time.Time { return vnow() }
