// yieldgen rewrites one Go source file for statement-level cooperative scheduling:
//   - inserts vsched.Yield("<file>:<line>") before every statement of every function body
//     (including nested blocks; not inside expressions),
//   - rewrites the import "sync" to the scheduler's shim package (same identifiers: Mutex, RWMutex),
//   - adds the vsched import.
// Nothing else is changed. Usage: yieldgen <in.go> <out.go> <vsched import path> <sync shim import path> [returns]
package main

import (
	"fmt"
	"go/ast"
	"go/format"
	"go/parser"
	"go/token"
	"os"
	"path/filepath"
	"strconv"
)

func main() {
	in, out, vs, shim := os.Args[1], os.Args[2], os.Args[3], os.Args[4]
	fset := token.NewFileSet()
	f, err := parser.ParseFile(fset, in, nil, parser.ParseComments)
	if err != nil {
		fmt.Fprintln(os.Stderr, err)
		os.Exit(1)
	}
	base := filepath.Base(in)
	yield := func(pos token.Pos) ast.Stmt {
		line := fset.Position(pos).Line
		return &ast.ExprStmt{X: &ast.CallExpr{Fun: &ast.SelectorExpr{X: ast.NewIdent("vsched"), Sel: ast.NewIdent("Yield")},
			Args: []ast.Expr{&ast.BasicLit{Kind: token.STRING, Value: strconv.Quote(fmt.Sprintf("%s:%d", base, line))}}}}
	}
	var rewriteBlock func(b *ast.BlockStmt)
	rewriteList := func(list []ast.Stmt) []ast.Stmt {
		var outL []ast.Stmt
		for _, st := range list {
			switch st.(type) {
			case *ast.DeclStmt, *ast.EmptyStmt, *ast.LabeledStmt:
			default:
				outL = append(outL, yield(st.Pos()))
			}
			outL = append(outL, st)
		}
		return outL
	}
	var visit func(n ast.Node)
	rewriteBlock = func(b *ast.BlockStmt) {
		if b == nil {
			return
		}
		for _, st := range b.List {
			visit(st)
		}
		b.List = rewriteList(b.List)
	}
	visit = func(n ast.Node) {
		switch s := n.(type) {
		case *ast.BlockStmt:
			rewriteBlock(s)
		case *ast.IfStmt:
			rewriteBlock(s.Body)
			if s.Else != nil {
				visit(s.Else)
			}
		case *ast.ForStmt:
			rewriteBlock(s.Body)
		case *ast.RangeStmt:
			rewriteBlock(s.Body)
		case *ast.SwitchStmt:
			for _, c := range s.Body.List {
				cc := c.(*ast.CaseClause)
				for _, st := range cc.Body {
					visit(st)
				}
				cc.Body = rewriteList(cc.Body)
			}
		case *ast.TypeSwitchStmt:
			for _, c := range s.Body.List {
				cc := c.(*ast.CaseClause)
				for _, st := range cc.Body {
					visit(st)
				}
				cc.Body = rewriteList(cc.Body)
			}
		case *ast.SelectStmt:
			for _, c := range s.Body.List {
				cc := c.(*ast.CommClause)
				for _, st := range cc.Body {
					visit(st)
				}
				cc.Body = rewriteList(cc.Body)
			}
		case *ast.LabeledStmt:
			visit(s.Stmt)
		}
	}
	// optional 5th argument "returns": every function additionally gets `defer vsched.Yield("<file>:<func> return")`
	// as its FIRST statement, i.e. a scheduling point after all of the function's own deferred calls have run and
	// before control is back in the caller - the gap between a callee handing out a result and the caller
	// using it inside ONE statement (f(g())) is otherwise not a scheduling point.
	returns := len(os.Args) > 5 && os.Args[5] == "returns"
	n := 0
	for _, d := range f.Decls {
		if fd, ok := d.(*ast.FuncDecl); ok && fd.Body != nil {
			rewriteBlock(fd.Body)
			if returns {
				lbl := fmt.Sprintf("%s:%s return", base, fd.Name.Name)
				def := &ast.DeferStmt{Call: &ast.CallExpr{Fun: &ast.SelectorExpr{X: ast.NewIdent("vsched"), Sel: ast.NewIdent("Yield")},
					Args: []ast.Expr{&ast.BasicLit{Kind: token.STRING, Value: strconv.Quote(lbl)}}}}
				fd.Body.List = append([]ast.Stmt{def}, fd.Body.List...)
			}
			n++
		}
	}
	hasSync := false
	for _, im := range f.Imports {
		if im.Path.Value == `"sync"` {
			im.Path.Value = strconv.Quote(shim)
			im.Name = ast.NewIdent("sync")
			hasSync = true
		}
	}
	_ = hasSync
	// add vsched import to the first import declaration
	for _, d := range f.Decls {
		if gd, ok := d.(*ast.GenDecl); ok && gd.Tok == token.IMPORT {
			gd.Specs = append(gd.Specs, &ast.ImportSpec{Path: &ast.BasicLit{Kind: token.STRING, Value: strconv.Quote(vs)}})
			break
		}
	}
	w, err := os.Create(out)
	if err != nil {
		fmt.Fprintln(os.Stderr, err)
		os.Exit(1)
	}
	defer w.Close()
	// comments carry positions that no longer fit the new statements: drop free-floating comments
	f.Comments = nil
	if err := format.Node(w, fset, f); err != nil {
		fmt.Fprintln(os.Stderr, err)
		os.Exit(1)
	}
	if n == 0 {
		fmt.Fprintln(os.Stderr, "no function bodies found")
		os.Exit(1)
	}
}
