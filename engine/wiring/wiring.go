// Package wiring reads how cmd/guardiand/node.go (or another composition root) wires components together:
// call sites and parameter lists are parsed with go/ast at check time, so that a harness which builds its own
// wiring (queue maps, flags, constructor arguments) can demand that the production wiring is the one it models.
// It does not execute anything; a call site it cannot find is a harness error (exit 2), not a verdict.
package wiring

import (
	"bytes"
	"fmt"
	"go/ast"
	"go/parser"
	"go/printer"
	"go/token"
)

func text(fset *token.FileSet, n ast.Node) string {
	var b bytes.Buffer
	printer.Fprint(&b, fset, n)
	return b.String()
}

// CallArgs returns, for every call of fun ("pkg.Func" or "Func") in file, the source text of its arguments.
func CallArgs(file, fun string) ([][]string, error) {
	fset := token.NewFileSet()
	f, err := parser.ParseFile(fset, file, nil, 0)
	if err != nil {
		return nil, err
	}
	var out [][]string
	ast.Inspect(f, func(n ast.Node) bool {
		c, ok := n.(*ast.CallExpr)
		if !ok || text(fset, c.Fun) != fun {
			return true
		}
		var args []string
		for _, a := range c.Args {
			args = append(args, text(fset, a))
		}
		out = append(out, args)
		return true
	})
	if len(out) == 0 {
		return nil, fmt.Errorf("%s: no call of %s", file, fun)
	}
	return out, nil
}

// ParamNames returns the parameter names of the top-level function (or method) name in file, in order.
func ParamNames(file, name string) ([]string, error) {
	fset := token.NewFileSet()
	f, err := parser.ParseFile(fset, file, nil, 0)
	if err != nil {
		return nil, err
	}
	for _, d := range f.Decls {
		fd, ok := d.(*ast.FuncDecl)
		if !ok || fd.Name.Name != name {
			continue
		}
		var out []string
		for _, fl := range fd.Type.Params.List {
			if len(fl.Names) == 0 {
				out = append(out, "_")
			}
			for _, n := range fl.Names {
				out = append(out, n.Name)
			}
		}
		return out, nil
	}
	return nil, fmt.Errorf("%s: function %s not found", file, name)
}

// ArgFor returns the argument text passed for parameter param of callee (declared in declFile under declName)
// at every call site of fun in callFile.
func ArgFor(callFile, fun, declFile, declName, param string) ([]string, error) {
	ps, err := ParamNames(declFile, declName)
	if err != nil {
		return nil, err
	}
	idx := -1
	for i, p := range ps {
		if p == param {
			idx = i
		}
	}
	if idx < 0 {
		return nil, fmt.Errorf("%s: %s has no parameter %s (has %v)", declFile, declName, param, ps)
	}
	calls, err := CallArgs(callFile, fun)
	if err != nil {
		return nil, err
	}
	var out []string
	for _, c := range calls {
		if len(c) != len(ps) {
			return nil, fmt.Errorf("%s: call of %s has %d arguments, declaration has %d parameters", callFile, fun, len(c), len(ps))
		}
		out = append(out, c[idx])
	}
	return out, nil
}
