// Package quiesce detects, without any wall-clock oracle, when every goroutine of the code under
// test is parked: it yields the processor and inspects the wait reason of every goroutine through
// runtime.Stack(all). Harnesses run with GOMAXPROCS=1 and perform one stimulus at a time; after each
// stimulus they call Wait and only then read outputs. A goroutine of interest that is parked in
// `chan send` / `sync.Mutex.Lock` while no stimulus can release it is a decided deadlock.
package quiesce

import (
	"bytes"
	"runtime"
	"strconv"
	"strings"
)

type Goroutine struct {
	ID     int
	State  string   // wait reason as printed by the runtime, without the duration suffix
	Frames []string // function names, innermost first
}

// Has reports whether some frame contains sub.
func (g Goroutine) Has(sub string) bool {
	for _, f := range g.Frames {
		if strings.Contains(f, sub) {
			return true
		}
	}
	return false
}

var buf = make([]byte, 4<<20)

// Dump parses the stacks of all goroutines.
func Dump() []Goroutine {
	n := runtime.Stack(buf, true)
	for n == len(buf) {
		buf = make([]byte, 2*len(buf))
		n = runtime.Stack(buf, true)
	}
	var out []Goroutine
	for _, blk := range bytes.Split(buf[:n], []byte("\n\n")) {
		lines := bytes.Split(blk, []byte("\n"))
		if len(lines) == 0 || !bytes.HasPrefix(lines[0], []byte("goroutine ")) {
			continue
		}
		hdr := string(lines[0])
		// goroutine 12 [chan receive, 2 minutes]:
		sp := strings.IndexByte(hdr[10:], ' ')
		id, _ := strconv.Atoi(hdr[10 : 10+sp])
		st := hdr[strings.IndexByte(hdr, '[')+1 : strings.LastIndexByte(hdr, ']')]
		if c := strings.IndexByte(st, ','); c >= 0 {
			st = st[:c]
		}
		g := Goroutine{ID: id, State: st}
		for _, l := range lines[1:] {
			if len(l) == 0 || l[0] == '\t' {
				continue
			}
			s := string(l)
			if strings.HasPrefix(s, "created by ") {
				g.Frames = append(g.Frames, s)
				continue
			}
			if p := strings.LastIndexByte(s, '('); p > 0 {
				s = s[:p]
			}
			g.Frames = append(g.Frames, s)
		}
		out = append(out, g)
	}
	return out
}

// Parked reports whether a wait reason is a parked state that only an external event can end.
func Parked(state string) bool {
	switch state {
	case "chan receive", "chan send", "select", "select (no cases)", "chan receive (nil chan)", "chan send (nil chan)",
		"sync.Mutex.Lock", "sync.RWMutex.Lock", "sync.RWMutex.RLock", "sync.Cond.Wait", "sync.WaitGroup.Wait", "semacquire",
		"IO wait", "GC worker (idle)", "GC sweep wait", "GC scavenge wait", "finalizer wait", "force gc (idle)", "debug call", "trace reader (blocked)":
		return true
	}
	return false
}

// Options for Wait.
type Options struct {
	// Ignore returns true for goroutines that are not part of the system under test (the caller is
	// always ignored).
	Ignore func(g Goroutine) bool
	// Activity, if set, is a progress counter of harness-owned seams (virtual clock, simulated
	// transports); quiescence requires it to be unchanged between two samples.
	Activity func() uint64
	// MaxSpins bounds the number of yield-and-inspect rounds (a harness error, not an oracle).
	MaxSpins int
}

// Wait yields until every goroutine of interest is parked on two consecutive samples. It returns
// the final dump and false if MaxSpins was exhausted (something keeps running: livelock or a real
// sleep/syscall in the code under test).
func Wait(o Options) ([]Goroutine, bool) {
	if o.MaxSpins == 0 {
		o.MaxSpins = 200000
	}
	self := selfID()
	stable := 0
	var lastAct uint64
	if o.Activity != nil {
		lastAct = o.Activity()
	}
	for spin := 0; spin < o.MaxSpins; spin++ {
		runtime.Gosched()
		gs := Dump()
		all := true
		for _, g := range gs {
			if g.ID == self || (o.Ignore != nil && o.Ignore(g)) {
				continue
			}
			if !Parked(g.State) {
				all = false
				break
			}
		}
		act := lastAct
		if o.Activity != nil {
			act = o.Activity()
		}
		if all && act == lastAct {
			stable++
			if stable >= 2 {
				return gs, true
			}
		} else {
			stable = 0
		}
		lastAct = act
	}
	return Dump(), false
}

// SelfID returns the id of the calling goroutine.
func SelfID() int { return selfID() }

func selfID() int {
	var b [64]byte
	n := runtime.Stack(b[:], false)
	s := string(b[:n])
	s = s[10:]
	id, _ := strconv.Atoi(s[:strings.IndexByte(s, ' ')])
	return id
}

// Find returns the goroutines having a frame that contains sub.
func Find(gs []Goroutine, sub string) []Goroutine {
	var out []Goroutine
	for _, g := range gs {
		if g.Has(sub) {
			out = append(out, g)
		}
	}
	return out
}

// ByID returns the goroutine with the given id (zero value if it has ended).
func ByID(gs []Goroutine, id int) (Goroutine, bool) {
	for _, g := range gs {
		if g.ID == id {
			return g, true
		}
	}
	return Goroutine{}, false
}
