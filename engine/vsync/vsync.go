// Package vsync is the sync shim used by files instrumented for the cooperative scheduler: Mutex and
// RWMutex block through vsched instead of the runtime, so that lock hand-offs are scheduling points.
// Outside a controlled execution they behave like the real types.
package vsync

import (
	"sync"

	"github.com/alephium/wormhole-fork/node/verifh/vsched"
)

type Mutex struct {
	real   sync.Mutex
	locked bool
}

func (m *Mutex) Lock() {
	if !vsched.Controlled() {
		m.real.Lock()
		return
	}
	vsched.Yield("Mutex.Lock")
	for m.locked {
		vsched.Block(m, "Mutex.Lock(wait)")
	}
	m.locked = true
}

func (m *Mutex) Unlock() {
	if !vsched.Controlled() {
		m.real.Unlock()
		return
	}
	if !m.locked {
		panic("sync: unlock of unlocked mutex")
	}
	m.locked = false
	vsched.Wake(m)
	vsched.Yield("Mutex.Unlock")
}

type RWMutex struct{ Mutex }

func (m *RWMutex) RLock()   { m.Lock() }
func (m *RWMutex) RUnlock() { m.Unlock() }

type (
	WaitGroup = sync.WaitGroup
	Once      = sync.Once
	Map       = sync.Map
	Pool      = sync.Pool
	Cond      = sync.Cond
	Locker    = sync.Locker
)
