// Package vsched is a statement-level cooperative scheduler: real goroutines, exactly one running
// at a time, hand-off at vsched.Yield (inserted before every statement of the file under test by
// tools/yieldgen) and at the operations of the sync shim (package vsched/vsync). The explorer
// enumerates schedules depth-first with a preemption bound.
package vsched

import (
	"fmt"
	"runtime/debug"
	"sync"
	"sync/atomic"
)

type thread struct {
	id      int
	resume  chan struct{}
	state   string // ready | blocked | done
	waitsOn interface{}
	err     interface{} // recovered panic
	stack   string
	label   string // label of the yield point it is parked at
}

// Exec is one controlled execution.
type Exec struct {
	threads []*thread
	parked  chan *thread // a thread reports that it reached a scheduling point (or ended)
	cur     *thread
	// schedule
	prefix  []int
	Choices []int      // choice taken at every scheduling point
	Points  []Point    // what was enabled there
	Trace   []string   // "t<id>@label"
	maxSteps int
	Livelock bool
	Deadlock bool
}

type Point struct {
	Enabled         []int // thread ids in canonical order: running thread first if still enabled, then ascending
	RunningEnabled  bool
}

var activeFlag int32

var (
	mu     sync.Mutex
	active *Exec
	byGo   = map[uint64]*thread{} // goroutine-local lookup is avoided: the running thread is Exec.cur
)

// Yield is a scheduling point. Outside a controlled execution it does nothing.
func Yield(label string) {
	if atomic.LoadInt32(&activeFlag) == 0 {
		return // fast path: no controlled execution (instrumented files are also used by free-running code)
	}
	mu.Lock()
	e := active
	mu.Unlock()
	if e == nil {
		return
	}
	t := e.cur
	if t == nil {
		return
	}
	t.label = label
	e.parked <- t
	<-t.resume
}

// Block parks the current thread until Wake(obj) (used by the sync shim). It returns after the
// thread has been rescheduled; the caller re-checks its condition.
func Block(obj interface{}, label string) {
	mu.Lock()
	e := active
	mu.Unlock()
	if e == nil {
		panic("vsched.Block outside a controlled execution")
	}
	t := e.cur
	t.state, t.waitsOn, t.label = "blocked", obj, label
	e.parked <- t
	<-t.resume
}

// Wake makes every thread blocked on obj ready again.
func Wake(obj interface{}) {
	mu.Lock()
	e := active
	mu.Unlock()
	if e == nil {
		return
	}
	for _, t := range e.threads {
		if t.state == "blocked" && t.waitsOn == obj {
			t.state, t.waitsOn = "ready", nil
		}
	}
}

// Controlled reports whether a controlled execution is active.
func Controlled() bool {
	mu.Lock()
	defer mu.Unlock()
	return active != nil
}

// Run executes the thread bodies under the schedule given by prefix (choice indices into the enabled
// list at each scheduling point); beyond the prefix it always takes choice 0 (keep running the current
// thread if enabled, else the lowest ready thread). A prefix choice out of range is a hard error.
func Run(bodies []func(), prefix []int) *Exec {
	e := &Exec{parked: make(chan *thread), prefix: prefix, maxSteps: 5000}
	mu.Lock()
	active = e
	atomic.StoreInt32(&activeFlag, 1)
	mu.Unlock()
	defer func() {
		mu.Lock()
		active = nil
		atomic.StoreInt32(&activeFlag, 0)
		mu.Unlock()
	}()
	for i, b := range bodies {
		t := &thread{id: i, resume: make(chan struct{}), state: "ready", label: "start"}
		e.threads = append(e.threads, t)
		b := b
		go func() {
			<-t.resume
			defer func() {
				if p := recover(); p != nil {
					t.err = p
					t.stack = string(debug.Stack())
				}
				t.state = "done"
				e.parked <- t
			}()
			b()
		}()
	}
	var running *thread
	for step := 0; ; step++ {
		// enabled threads in canonical order
		var en []*thread
		if running != nil && running.state == "ready" {
			en = append(en, running)
		}
		for _, t := range e.threads {
			if t.state == "ready" && t != running {
				en = append(en, t)
			}
		}
		if len(en) == 0 {
			for _, t := range e.threads {
				if t.state == "blocked" {
					e.Deadlock = true
				}
			}
			return e
		}
		if step >= e.maxSteps {
			e.Livelock = true
			return e
		}
		choice := 0
		if len(e.Choices) < len(prefix) {
			choice = prefix[len(e.Choices)]
			if choice >= len(en) {
				panic(fmt.Sprintf("vsched: replay diverged: choice %d of %d at point %d", choice, len(en), len(e.Choices)))
			}
		}
		p := Point{RunningEnabled: running != nil && running.state == "ready"}
		for _, t := range en {
			p.Enabled = append(p.Enabled, t.id)
		}
		e.Points = append(e.Points, p)
		e.Choices = append(e.Choices, choice)
		t := en[choice]
		e.Trace = append(e.Trace, fmt.Sprintf("t%d@%s", t.id, t.label))
		running = t
		e.cur = t
		t.resume <- struct{}{}
		<-e.parked // the thread ran to its next scheduling point, blocked, or ended
	}
}

// Result of thread i.
func (e *Exec) Panic(i int) (interface{}, string) { return e.threads[i].err, e.threads[i].stack }
func (e *Exec) Done(i int) bool                   { return e.threads[i].state == "done" }

// PreemptionsBefore counts preemptions among the first n choices.
func (e *Exec) PreemptionsBefore(n int) int {
	c := 0
	for i := 0; i < n && i < len(e.Choices); i++ {
		if e.Points[i].RunningEnabled && e.Choices[i] != 0 {
			c++
		}
	}
	return c
}

// Explore enumerates all schedules with at most bound preemptions (bound < 0: unbounded), depth-first.
// check is called for every complete execution. It returns the number of executions.
func Explore(mk func() []func(), bound int, check func(e *Exec)) int {
	n, _ := ExploreBudget(mk, bound, -1, check)
	return n
}

// ExploreBudget is Explore with a cap on the number of executions (budget < 0: none). complete reports
// whether the whole schedule tree for that bound was enumerated.
func ExploreBudget(mk func() []func(), bound int, budget int, check func(e *Exec)) (n int, complete bool) {
	complete = true
	var rec func(prefix []int)
	rec = func(prefix []int) {
		if budget >= 0 && n >= budget {
			complete = false
			return
		}
		e := Run(mk(), prefix)
		n++
		check(e)
		for i := len(prefix); i < len(e.Points); i++ {
			p := e.Points[i]
			cost := e.PreemptionsBefore(i)
			for alt := 1; alt < len(p.Enabled); alt++ {
				c := cost
				if p.RunningEnabled {
					c++ // switching away from a runnable thread is a preemption
				}
				if bound >= 0 && c > bound {
					continue
				}
				rec(append(append([]int{}, e.Choices[:i]...), alt))
			}
		}
	}
	rec(nil)
	return n, complete
}
