// Package mc holds the generic exploration helpers: parallel enumeration, product iterators,
// history BFS with state-key pruning, deviation-bounded DFS.
package mc

import (
	"runtime"
	"sync"
	"sync/atomic"
)

// ParallelFor runs f(i) for every i in [0,n) on all cores; order of completion is irrelevant to
// every caller (results are merged into counters / violation sets).
func ParallelFor(n int, f func(i int)) {
	w := runtime.NumCPU()
	if w > n {
		w = n
	}
	if w < 1 {
		w = 1
	}
	var next int64 = -1
	var wg sync.WaitGroup
	for k := 0; k < w; k++ {
		wg.Add(1)
		go func() {
			defer wg.Done()
			for {
				i := int(atomic.AddInt64(&next, 1))
				if i >= n {
					return
				}
				f(i)
			}
		}()
	}
	wg.Wait()
}

// Product enumerates the cartesian product of the given radixes, simplest (all zero) first.
// It calls f with the index vector (reused between calls).
func Product(radix []int, f func(ix []int)) {
	for _, r := range radix {
		if r == 0 {
			return
		}
	}
	ix := make([]int, len(radix))
	for {
		f(ix)
		k := len(ix) - 1
		for k >= 0 {
			ix[k]++
			if ix[k] < radix[k] {
				break
			}
			ix[k] = 0
			k--
		}
		if k < 0 {
			return
		}
	}
}

// ProductSize returns the number of tuples Product enumerates.
func ProductSize(radix []int) int {
	n := 1
	for _, r := range radix {
		n *= r
	}
	return n
}

// Unrank returns the index vector of the i-th tuple in Product order.
func Unrank(radix []int, i int) []int {
	ix := make([]int, len(radix))
	for k := len(radix) - 1; k >= 0; k-- {
		ix[k] = i % radix[k]
		i /= radix[k]
	}
	return ix
}
