package mc

// Sys is one fresh instance of a real system under exploration. Instances cannot be cloned, so a
// successor state is reached by replaying the shortest history on a fresh instance plus one event.
type Sys interface {
	// Enabled lists the events (indices into the harness alphabet) offered in the current state.
	Enabled() []int
	// Apply performs one transition. hist is the history including e. With check=false the step is a
	// replay of an already checked prefix: oracles stay silent.
	Apply(e int, hist []int, check bool)
	// Key is the canonical state key (property-relevant, sorted, exact virtual ages).
	Key() string
	// Dead reports that the last transition ended the execution (crash, decided deadlock).
	Dead() bool
	Close()
}

type Stats struct {
	States, Transitions, Builds int
	Capped                      bool
	MaxDepth                    int
}

// BFS explores every history up to depth with one history kept per state key. Transitions that leave
// the key unchanged continue on the same instance; after a state-changing transition the instance is
// rebuilt by replay. onNew is called for every newly discovered state with the live instance (which
// is closed afterwards).
func BFS(fresh func() Sys, prefix []int, depth, maxStates int, onNew func(s Sys, hist []int)) Stats {
	var st Stats
	build := func(h []int, checkPrefix bool) Sys {
		st.Builds++
		s := fresh()
		for i, e := range h {
			s.Apply(e, h[:i+1], checkPrefix)
		}
		return s
	}
	root := build(prefix, true)
	seen := map[string]bool{root.Key(): true}
	root.Close()
	st.States = 1
	frontier := [][]int{prefix}
	depth += len(prefix)
	for len(frontier) > 0 {
		cur := frontier[0]
		frontier = frontier[1:]
		if len(cur) > st.MaxDepth {
			st.MaxDepth = len(cur)
		}
		if len(cur) >= depth {
			continue
		}
		s := build(cur, false)
		key0 := s.Key()
		for _, e := range s.Enabled() {
			h := append(append([]int{}, cur...), e)
			s.Apply(e, h, true)
			st.Transitions++
			if s.Dead() {
				s.Close()
				s = build(cur, false)
				continue
			}
			k := s.Key()
			if k == key0 {
				continue
			}
			if !seen[k] {
				seen[k] = true
				st.States++
				if onNew != nil {
					onNew(s, h)
				}
				if maxStates > 0 && st.States >= maxStates {
					st.Capped = true
					s.Close()
					return st
				}
				frontier = append(frontier, h)
			}
			s.Close()
			s = build(cur, false)
		}
		s.Close()
	}
	return st
}
