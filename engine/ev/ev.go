// Package ev is the evidence / violation reporting layer shared by every harness.
// It is compiled into each harness through the build overlay (virtual package verifh/ev).
package ev

import (
	"encoding/json"
	"fmt"
	"os"
	"path/filepath"
	"regexp"
	"sort"
	"strconv"
	"strings"
	"sync"
	"time"
)

type known struct {
	Property string `json:"property"`
	Match    string `json:"match"` // regexp over the violation key
	What     string `json:"what"`
	re       *regexp.Regexp
}

type knownFile struct {
	Known []known  `json:"known"`
	Fixed []string `json:"fixed"`
}

// Violation is one failing case. Key identifies the failing input / call site / history class
// and is what known_findings.json matches on; Replay is the artefact written to disk.
type Violation struct {
	Key    string      `json:"key"`
	What   string      `json:"what"`
	Replay interface{} `json:"replay"`
}

type Run struct {
	ID          string
	Tier        string
	Seed        int64
	Level       string
	Root        string // /verif
	Repo        string // /repo
	start       time.Time
	mu          sync.Mutex
	Coverage    map[string]interface{}
	Assumptions []string
	viol        []Violation
	violKeys    map[string]int
	known       []known
	samples     []interface{}
	nontrivial  map[string]struct{}
	Exhaustive  bool
	caps        []string
}

func envOr(k, d string) string {
	if v := os.Getenv(k); v != "" {
		return v
	}
	return d
}

func Start(id, level string) *Run {
	seed, _ := strconv.ParseInt(envOr("VERIF_SEED", "0"), 10, 64)
	r := &Run{ID: id, Tier: envOr("VERIF_TIER", "quick"), Seed: seed, Level: level,
		Root: envOr("VERIF_ROOT", "/verif"), Repo: envOr("VERIF_REPO", "/repo"),
		start: time.Now(), Coverage: map[string]interface{}{}, violKeys: map[string]int{},
		nontrivial: map[string]struct{}{}, Exhaustive: true}
	if r.Tier != "quick" && r.Tier != "thorough" {
		r.Tier = "quick"
	}
	b, err := os.ReadFile(filepath.Join(r.Root, "known_findings.json"))
	if err == nil {
		var kf knownFile
		if err := json.Unmarshal(b, &kf); err != nil {
			Broken("known_findings.json does not parse: %v", err)
		}
		for _, k := range kf.Known {
			if k.Property == id {
				k.re = regexp.MustCompile(k.Match)
				r.known = append(r.known, k)
			}
		}
	}
	return r
}

func (r *Run) Thorough() bool { return r.Tier == "thorough" }

// Pick returns q in the quick tier and t in the thorough tier.
func (r *Run) Pick(q, t int) int {
	if r.Thorough() {
		return t
	}
	return q
}

// Broken reports a harness error (never a VIOLATION) and exits 2.
func Broken(f string, a ...interface{}) {
	fmt.Printf("BROKEN-HARNESS: "+f+"\n", a...)
	os.Exit(2)
}

// Violation records a failing case. At most maxPerKey artefacts are kept per key.
func (r *Run) Violation(key, what string, replay interface{}) {
	r.mu.Lock()
	defer r.mu.Unlock()
	r.violKeys[key]++
	if r.violKeys[key] > 3 {
		return
	}
	r.viol = append(r.viol, Violation{key, what, replay})
}

func (r *Run) Violations() int {
	r.mu.Lock()
	defer r.mu.Unlock()
	n := 0
	for _, c := range r.violKeys {
		n += c
	}
	return n
}

// Sample keeps up to 6 written-out cases for the evidence file.
func (r *Run) Sample(s interface{}) {
	r.mu.Lock()
	defer r.mu.Unlock()
	if len(r.samples) < 6 {
		r.samples = append(r.samples, s)
	}
}

// Nontrivial counts a distinct non-trivial case by its canonical key.
func (r *Run) Nontrivial(key string) {
	r.mu.Lock()
	r.nontrivial[key] = struct{}{}
	r.mu.Unlock()
}

func (r *Run) Set(k string, v interface{}) {
	r.mu.Lock()
	r.Coverage[k] = v
	r.mu.Unlock()
}

func (r *Run) Add(k string, n int) {
	r.mu.Lock()
	c, _ := r.Coverage[k].(int)
	r.Coverage[k] = c + n
	r.mu.Unlock()
}

func (r *Run) Get(k string) int {
	r.mu.Lock()
	defer r.mu.Unlock()
	c, _ := r.Coverage[k].(int)
	return c
}

// Cap records that a bound was hit, which makes the run non-exhaustive.
func (r *Run) Cap(what string) {
	r.mu.Lock()
	r.caps = append(r.caps, what)
	r.Exhaustive = false
	r.mu.Unlock()
}

func (r *Run) Assume(s string) { r.Assumptions = append(r.Assumptions, s) }

// Finish writes the evidence file, prints verdict lines and exits.
func (r *Run) Finish() {
	r.mu.Lock()
	defer r.mu.Unlock()
	if os.Getenv("VERIF_SUB") != "" {
		r.finishSub()
		return
	}
	if _, ok := r.Coverage["samples"]; !ok {
		if r.samples == nil {
			r.samples = []interface{}{} // a run that was cut short before its first sample still writes a list
		}
		r.Coverage["samples"] = r.samples
	}
	if _, ok := r.Coverage["distinct_nontrivial"]; !ok {
		r.Coverage["distinct_nontrivial"] = len(r.nontrivial)
	}
	r.Coverage["exhaustive"] = r.Exhaustive
	if len(r.caps) > 0 {
		r.Coverage["caps_hit"] = r.caps
	}
	// classify
	unlisted, listed := 0, map[string]string{}
	repDir := filepath.Join(r.Root, "replays", r.ID)
	type out struct {
		v    Violation
		path string
	}
	var outs []out
	keys := make([]string, 0, len(r.violKeys))
	for k := range r.violKeys {
		keys = append(keys, k)
	}
	sort.Strings(keys)
	kcount := map[string]int{}
	for _, v := range r.viol {
		isKnown := false
		for _, k := range r.known {
			if k.re.MatchString(v.Key) {
				listed[k.Match] = k.What
				isKnown = true
				break
			}
		}
		if isKnown {
			continue
		}
		unlisted++
		kcount[v.Key]++
		os.MkdirAll(repDir, 0o755)
		p := filepath.Join(repDir, fmt.Sprintf("%s-%d.json", sanitize(v.Key), kcount[v.Key]))
		b, _ := json.MarshalIndent(map[string]interface{}{"property": r.ID, "key": v.Key, "what": v.What, "replay": v.Replay}, "", " ")
		os.WriteFile(p, b, 0o644)
		outs = append(outs, out{v, p})
	}
	total := 0
	for _, c := range r.violKeys {
		total += c
	}
	r.Coverage["violation_keys"] = keys
	evd := map[string]interface{}{
		"property_id": r.ID, "tier": r.Tier, "seed": r.Seed, "level": r.Level,
		"coverage": r.Coverage, "assumptions": r.Assumptions,
		"wall_s": time.Since(r.start).Seconds(), "violations": total,
	}
	if r.Assumptions == nil {
		evd["assumptions"] = []string{}
	}
	b, err := json.MarshalIndent(evd, "", " ")
	if err != nil {
		Broken("evidence does not marshal: %v", err)
	}
	os.MkdirAll(filepath.Join(r.Root, "evidence"), 0o755)
	if err := os.WriteFile(filepath.Join(r.Root, "evidence", r.ID+".json"), b, 0o644); err != nil {
		Broken("cannot write evidence: %v", err)
	}
	lk := make([]string, 0, len(listed))
	for m := range listed {
		lk = append(lk, m)
	}
	sort.Strings(lk)
	for _, m := range lk {
		fmt.Printf("KNOWN-FINDING: property=%s %s\n", r.ID, listed[m])
	}
	for _, o := range outs {
		fmt.Printf("VIOLATION property=%s replay=%s\n", r.ID, o.path)
		fmt.Printf("  key=%s\n  %s\n", o.v.Key, o.v.What)
	}
	fmt.Printf("%s %s: level=%s exhaustive=%v violations=%d (unlisted artefacts %d) wall=%.1fs coverage: ", r.ID, r.Tier, r.Level, r.Exhaustive, total, unlisted, time.Since(r.start).Seconds())
	for _, k := range []string{"evaluations", "distinct_nontrivial", "states", "transitions", "traces_validated_against_impl"} {
		if v, ok := r.Coverage[k]; ok {
			fmt.Printf("%s=%v ", k, v)
		}
	}
	fmt.Println()
	if unlisted > 0 {
		os.Exit(1)
	}
	os.Exit(0)
}

var sanRe = regexp.MustCompile(`[^A-Za-z0-9._-]+`)

func sanitize(s string) string {
	s = sanRe.ReplaceAllString(s, "_")
	if len(s) > 80 {
		s = s[:80]
	}
	return s
}

// ---- sub-process mode: a harness re-executed as a shard / variant writes its counters and
// violations as JSON to the file named by VERIF_SUB and the parent merges them.

type subResult struct {
	Counters   map[string]int         `json:"counters"`
	Other      map[string]interface{} `json:"other"`
	Viol       []Violation            `json:"viol"`
	ViolKeys   map[string]int         `json:"viol_keys"`
	Nontrivial []string               `json:"nontrivial"`
	Samples    []interface{}          `json:"samples"`
	Caps       []string               `json:"caps"`
}

func (r *Run) finishSub() {
	res := subResult{Counters: map[string]int{}, Other: map[string]interface{}{}, Viol: r.viol, ViolKeys: r.violKeys, Samples: r.samples, Caps: r.caps}
	for k, v := range r.Coverage {
		if n, ok := v.(int); ok {
			res.Counters[k] = n
		} else {
			res.Other[k] = v
		}
	}
	for k := range r.nontrivial {
		res.Nontrivial = append(res.Nontrivial, k)
	}
	b, err := json.Marshal(res)
	if err != nil {
		Broken("sub result does not marshal: %v", err)
	}
	if err := os.WriteFile(os.Getenv("VERIF_SUB"), b, 0o644); err != nil {
		Broken("cannot write sub result: %v", err)
	}
	os.Exit(0)
}

// Merge folds a sub-process result file into this run. prefix is put in front of violation keys
// and nontrivial keys ("" for plain shards of the same space).
func (r *Run) Merge(path, prefix string) {
	b, err := os.ReadFile(path)
	if err != nil {
		Broken("sub result missing: %v", err)
	}
	var res subResult
	if err := json.Unmarshal(b, &res); err != nil {
		Broken("sub result does not parse: %v", err)
	}
	r.mu.Lock()
	defer r.mu.Unlock()
	for k, n := range res.Counters {
		c, _ := r.Coverage[k].(int)
		r.Coverage[k] = c + n
	}
	for k, v := range res.Other {
		if _, ok := r.Coverage[prefix+k]; !ok {
			r.Coverage[prefix+k] = v
		}
	}
	for k, n := range res.ViolKeys {
		r.violKeys[prefix+k] += n
	}
	have := map[string]int{}
	for _, v := range r.viol {
		have[v.Key]++
	}
	for _, v := range res.Viol {
		v.Key = prefix + v.Key
		if have[v.Key] >= 3 {
			continue
		}
		have[v.Key]++
		r.viol = append(r.viol, v)
	}
	for _, k := range res.Nontrivial {
		r.nontrivial[prefix+k] = struct{}{}
	}
	for _, s := range res.Samples {
		if len(r.samples) < 8 {
			r.samples = append(r.samples, s)
		}
	}
	for _, c := range res.Caps {
		r.caps = append(r.caps, c)
		r.Exhaustive = false
	}
}

// ---- sharding over worker sub-processes (each worker is this same binary)

// Shard returns this process's shard index and count; worker is false in the parent.
func Shard() (i, n int, worker bool) {
	s := os.Getenv("VERIF_SHARD")
	if s == "" {
		return 0, 1, false
	}
	fmt.Sscanf(s, "%d/%d", &i, &n)
	return i, n, true
}

// Journal records what the worker is about to run, so that the parent can attribute a crash of the
// code under test (a panic on a goroutine the harness cannot recover) to a history.
func Journal(v interface{}) {
	p := os.Getenv("VERIF_JOURNAL")
	if p == "" {
		return
	}
	b, _ := json.Marshal(v)
	os.WriteFile(p, b, 0o644)
}

// CrashViolation is a helper for Fork's onCrash: it turns a worker crash into a violation whose key is
// the panic message and whose replay is the journalled history.
func (r *Run) CrashViolation(shard int, out []byte, journal string) bool {
	s := string(out)
	i := strings.Index(s, "panic: ")
	if i < 0 {
		i = strings.Index(s, "fatal error: ")
	}
	if i < 0 {
		return false
	}
	line := s[i:]
	if j := strings.IndexByte(line, '\n'); j > 0 {
		line = line[:j]
	}
	// strip addresses / numbers that vary
	line = regexp.MustCompile(`0x[0-9a-f]+`).ReplaceAllString(line, "0x..")
	var jr interface{}
	if b, err := os.ReadFile(journal); err == nil {
		json.Unmarshal(b, &jr)
	}
	tail := s[i:]
	if len(tail) > 1800 {
		tail = tail[:1800]
	}
	r.Violation("crash of the code under test: "+line, tail, jr)
	r.Cap(fmt.Sprintf("worker %d crashed; the rest of its shard was not explored", shard))
	return true
}
