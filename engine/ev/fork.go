package ev

import (
	"bytes"
	"fmt"
	"os"
	"os/exec"
	"path/filepath"
	"runtime"
	"sync"
)

// Fork runs n worker copies of this binary (VERIF_SHARD=i/n, VERIF_SUB=<file>) in parallel and merges
// their results. A worker that dies is a harness error unless onCrash is given, in which case
// onCrash(shard, output) decides (used by harnesses where a crash of the code under test is a finding).
func (r *Run) Fork(n int, extraEnv []string, onCrash func(shard int, out []byte, journal string) bool) {
	if n <= 0 {
		n = runtime.NumCPU()
	}
	scratch := os.Getenv("VERIF_SCRATCH")
	if scratch == "" {
		scratch = os.TempDir()
	}
	var wg sync.WaitGroup
	var mu sync.Mutex
	for i := 0; i < n; i++ {
		wg.Add(1)
		go func(i int) {
			defer wg.Done()
			out := filepath.Join(scratch, fmt.Sprintf("shard-%s-%d.json", r.ID, i))
			journal := filepath.Join(scratch, fmt.Sprintf("journal-%s-%d.txt", r.ID, i))
			os.Remove(out)
			cmd := exec.Command(os.Args[0], os.Args[1:]...)
			cmd.Env = append(os.Environ(), fmt.Sprintf("VERIF_SHARD=%d/%d", i, n), "VERIF_SUB="+out, "VERIF_JOURNAL="+journal)
			cmd.Env = append(cmd.Env, extraEnv...)
			var buf bytes.Buffer
			cmd.Stdout, cmd.Stderr = &buf, &buf
			err := cmd.Run()
			mu.Lock()
			defer mu.Unlock()
			if err != nil {
				if onCrash != nil && onCrash(i, buf.Bytes(), journal) {
					if _, e := os.Stat(out); e == nil {
						r.mu.Unlock()
						r.Merge(out, "")
						r.mu.Lock()
					}
					return
				}
				tail := buf.Bytes()
				if len(tail) > 3000 {
					tail = tail[len(tail)-3000:]
				}
				Broken("worker %d/%d failed: %v\n%s", i, n, err, tail)
			}
			if buf.Len() > 0 && os.Getenv("VERIF_VERBOSE") != "" {
				os.Stdout.Write(buf.Bytes())
			}
			mu.Unlock()
			r.Merge(out, "")
			mu.Lock()
		}(i)
	}
	wg.Wait()
}
