package ev

import (
	"bytes"
	"encoding/json"
	"fmt"
	"os"
	"os/exec"
	"path/filepath"
	"runtime"
	"sync"
)

// Fork runs n worker copies of this binary (VERIF_SHARD=i/n, VERIF_SUB=<file>) in parallel and merges
// their results. A worker that dies is a harness error unless onCrash is given and recognises a crash
// of the code under test (see CrashViolation). In that case the shard is resumed after the work item
// that crashed, if the worker journalled a "resume" index (VERIF_RESUME is passed to the new worker);
// results of the crashed partial run itself are lost (only the violation is kept).
func (r *Run) Fork(n int, extraEnv []string, onCrash func(shard int, out []byte, journal string) bool) {
	if n <= 0 {
		n = runtime.NumCPU()
	}
	scratch := os.Getenv("VERIF_SCRATCH")
	if scratch == "" {
		scratch = os.TempDir()
	}
	var wg sync.WaitGroup
	var mu sync.Mutex
	for i := 0; i < n; i++ {
		wg.Add(1)
		go func(i int) {
			defer wg.Done()
			out := filepath.Join(scratch, fmt.Sprintf("shard-%s-%d.json", r.ID, i))
			journal := filepath.Join(scratch, fmt.Sprintf("journal-%s-%d.txt", r.ID, i))
			resume := 0
			for attempt := 0; ; attempt++ {
				os.Remove(out)
				cmd := exec.Command(os.Args[0], os.Args[1:]...)
				cmd.Env = append(os.Environ(), fmt.Sprintf("VERIF_SHARD=%d/%d", i, n), "VERIF_SUB="+out, "VERIF_JOURNAL="+journal, fmt.Sprintf("VERIF_RESUME=%d", resume))
				cmd.Env = append(cmd.Env, extraEnv...)
				var buf bytes.Buffer
				cmd.Stdout, cmd.Stderr = &buf, &buf
				err := cmd.Run()
				if err == nil {
					mu.Lock()
					if buf.Len() > 0 && os.Getenv("VERIF_VERBOSE") != "" {
						os.Stdout.Write(buf.Bytes())
					}
					r.Merge(out, "")
					mu.Unlock()
					return
				}
				mu.Lock()
				handled := onCrash != nil && onCrash(i, buf.Bytes(), journal)
				mu.Unlock()
				if !handled {
					tail := buf.Bytes()
					if len(tail) > 3000 {
						tail = tail[len(tail)-3000:]
					}
					Broken("worker %d/%d failed: %v\n%s", i, n, err, tail)
				}
				var jr map[string]interface{}
				if b, e := os.ReadFile(journal); e == nil {
					json.Unmarshal(b, &jr)
				}
				next, ok := jr["resume"].(float64)
				if !ok || int(next) <= resume || attempt > 300 {
					return // no resume point: the rest of the shard stays unexplored (a cap was recorded)
				}
				resume = int(next)
			}
		}(i)
	}
	wg.Wait()
}

// Resume returns the work-item index a restarted worker continues from.
func Resume() int {
	n := 0
	fmt.Sscanf(os.Getenv("VERIF_RESUME"), "%d", &n)
	return n
}
