// Package vtime is a drop-in replacement for the parts of package time used by the files that the
// build overlay puts on the virtual clock (their import line "time" is rewritten to this package).
// Types and constants alias the real ones; Now/Since/Sleep/NewTicker/NewTimer/After are owned by
// the harness: the clock only moves when the harness says so and tickers/timers/sleepers fire only
// when the harness fires them.
package vtime

import (
	"context"
	"runtime"
	"strings"
	"sync"
	"time"
)

type (
	Time       = time.Time
	Duration   = time.Duration
	Month      = time.Month
	Weekday    = time.Weekday
	Location   = time.Location
	ParseError = time.ParseError
)

const (
	Nanosecond  = time.Nanosecond
	Microsecond = time.Microsecond
	Millisecond = time.Millisecond
	Second      = time.Second
	Minute      = time.Minute
	Hour        = time.Hour
	RFC3339     = time.RFC3339
	RFC3339Nano = time.RFC3339Nano
	// the rest of package time's constants, so that a file under test that starts using one still compiles
	Layout     = time.Layout
	ANSIC      = time.ANSIC
	UnixDate   = time.UnixDate
	RubyDate   = time.RubyDate
	RFC822     = time.RFC822
	RFC822Z    = time.RFC822Z
	RFC850     = time.RFC850
	RFC1123    = time.RFC1123
	RFC1123Z   = time.RFC1123Z
	Kitchen    = time.Kitchen
	Stamp      = time.Stamp
	StampMilli = time.StampMilli
	StampMicro = time.StampMicro
	StampNano  = time.StampNano
	DateTime   = time.DateTime
	DateOnly   = time.DateOnly
	TimeOnly   = time.TimeOnly
	January    = time.January
	February   = time.February
	March      = time.March
	April      = time.April
	May        = time.May
	June       = time.June
	July       = time.July
	August     = time.August
	September  = time.September
	October    = time.October
	November   = time.November
	December   = time.December
	Sunday     = time.Sunday
	Monday     = time.Monday
	Tuesday    = time.Tuesday
	Wednesday  = time.Wednesday
	Thursday   = time.Thursday
	Friday     = time.Friday
	Saturday   = time.Saturday
)

var UTC = time.UTC
var Local = time.Local

func UnixMicro(us int64) Time                  { return time.UnixMicro(us) }
func Parse(layout, value string) (Time, error) { return time.Parse(layout, value) }
func ParseInLocation(l, v string, loc *Location) (Time, error) {
	return time.ParseInLocation(l, v, loc)
}
func LoadLocation(name string) (*Location, error) { return time.LoadLocation(name) }
func FixedZone(name string, offset int) *Location { return time.FixedZone(name, offset) }

func Unix(sec, nsec int64) Time { return time.Unix(sec, nsec) }
func UnixMilli(ms int64) Time   { return time.UnixMilli(ms) }
func Date(y int, m Month, d, h, mi, s, ns int, l *Location) Time {
	return time.Date(y, m, d, h, mi, s, ns, l)
}
func ParseDuration(s string) (Duration, error) { return time.ParseDuration(s) }

// ---- the clock

var (
	mu      sync.Mutex
	now     = time.Unix(1_700_000_000, 0)
	waiters []*Waiter
	nextID  int
	// Activity counts clock interactions (used by quiescence detection as a progress witness).
	activity uint64
)

// Waiter is a registered ticker, timer or sleeper.
type Waiter struct {
	ID      int
	Kind    string // "ticker" | "timer" | "sleep"
	Label   string // function that created it
	Period  Duration
	Created Time
	lastDue Time // tickers: the due time that was last honoured by FireDue
	C       chan Time
	stopped bool
	fired   bool
	release chan struct{}
	f       func()
}

func Now() Time {
	mu.Lock()
	defer mu.Unlock()
	activity++
	return now
}

func Since(t Time) Duration { return Now().Sub(t) }
func Until(t Time) Duration { return t.Sub(Now()) }

func creator() string {
	pc := make([]uintptr, 12)
	n := runtime.Callers(3, pc)
	fr := runtime.CallersFrames(pc[:n])
	for {
		f, more := fr.Next()
		if !strings.Contains(f.Function, "/verifh/vtime.") {
			fn := f.Function
			if i := strings.LastIndex(fn, "/"); i >= 0 {
				fn = fn[i+1:]
			}
			return fn
		}
		if !more {
			return "?"
		}
	}
}

func register(kind string, d Duration, buf int) *Waiter {
	return registerWith(kind, d, buf, nil)
}

// registerWith: init runs before the waiter becomes visible to the harness.
func registerWith(kind string, d Duration, buf int, init func(w *Waiter)) *Waiter {
	lbl := creator()
	mu.Lock()
	defer mu.Unlock()
	activity++
	nextID++
	w := &Waiter{ID: nextID, Kind: kind, Label: lbl, Period: d, Created: now, C: make(chan Time, buf)}
	if init != nil {
		init(w)
	}
	waiters = append(waiters, w)
	return w
}

type Ticker struct {
	C <-chan Time
	w *Waiter
}

func NewTicker(d Duration) *Ticker {
	if d <= 0 {
		panic("non-positive interval for NewTicker")
	}
	w := register("ticker", d, 1)
	return &Ticker{C: w.C, w: w}
}

func (t *Ticker) Stop() {
	mu.Lock()
	t.w.stopped = true
	mu.Unlock()
}

func (t *Ticker) Reset(d Duration) {
	mu.Lock()
	// as in package time: the next tick comes one period after the Reset
	t.w.Period, t.w.stopped = d, false
	t.w.Created, t.w.lastDue = now, Time{}
	mu.Unlock()
}

func Tick(d Duration) <-chan Time { return NewTicker(d).C }

type Timer struct {
	C <-chan Time
	w *Waiter
}

func NewTimer(d Duration) *Timer {
	w := register("timer", d, 1)
	return &Timer{C: w.C, w: w}
}

func (t *Timer) Stop() bool {
	mu.Lock()
	defer mu.Unlock()
	was := !t.w.stopped && !t.w.fired
	t.w.stopped = true
	return was
}

func (t *Timer) Reset(d Duration) bool {
	mu.Lock()
	defer mu.Unlock()
	was := !t.w.stopped && !t.w.fired
	t.w.Period, t.w.stopped, t.w.fired, t.w.Created = d, false, false, now
	return was
}

func After(d Duration) <-chan Time { return NewTimer(d).C }

func AfterFunc(d Duration, f func()) *Timer {
	w := registerWith("timer", d, 1, func(w *Waiter) { w.f = f })
	return &Timer{C: w.C, w: w}
}

// Sleep parks the caller until the harness releases it (d <= 0 returns at once, as in package time).
func Sleep(d Duration) {
	if d <= 0 {
		return
	}
	rel := make(chan struct{})
	registerWith("sleep", d, 0, func(w *Waiter) { w.release = rel }) // set under the clock's lock: Fire reads it there
	<-rel
}

// ---- harness side

// Reset clears all waiters and sets the clock (between executions).
func ResetClock(t Time) {
	mu.Lock()
	now = t
	waiters = nil
	nextID = 0
	mu.Unlock()
}

func Advance(d Duration) {
	mu.Lock()
	now = now.Add(d)
	activity++
	mu.Unlock()
}

func Activity() uint64 {
	mu.Lock()
	defer mu.Unlock()
	return activity
}

// Waiters returns the live (not stopped; timers/sleepers not yet fired) waiters in creation order.
func Waiters() []*Waiter {
	mu.Lock()
	defer mu.Unlock()
	var out []*Waiter
	for _, w := range waiters {
		if w.stopped || (w.Kind != "ticker" && w.fired) {
			continue
		}
		out = append(out, w)
	}
	return out
}

// Find returns the live waiters whose label contains sub.
func Find(kind, sub string) []*Waiter {
	var out []*Waiter
	for _, w := range Waiters() {
		if (kind == "" || w.Kind == kind) && strings.Contains(w.Label, sub) {
			out = append(out, w)
		}
	}
	return out
}

// Fire delivers the waiter's event now. For a ticker a tick is dropped when the one-slot channel is
// still full (real ticker semantics); returns whether something was delivered.
// WithTimeout is context.WithTimeout on the virtual clock: the returned context ends with
// context.DeadlineExceeded when the harness fires its timer (label "ctx:<creator>", e.g. through FireDue once
// the virtual clock has passed creation + d), or with the parent / on cancel as usual.
// WithDeadline: a deadline on the virtual clock.
func WithDeadline(parent context.Context, t Time) (context.Context, context.CancelFunc) {
	return WithTimeout(parent, t.Sub(Now()))
}

func WithTimeout(parent context.Context, d Duration) (context.Context, context.CancelFunc) {
	inner, cancel := context.WithCancel(parent)
	c := &vctx{Context: inner}
	w := registerWith("timer", d, 1, func(w *Waiter) {
		w.Label = "ctx:" + w.Label
		w.f = func() {
			c.mu.Lock()
			if c.Context.Err() == nil {
				c.timedOut = true
			}
			c.mu.Unlock()
			cancel()
		}
	})
	return c, func() {
		mu.Lock()
		w.stopped = true
		mu.Unlock()
		cancel()
	}
}

type vctx struct {
	context.Context
	mu       sync.Mutex
	timedOut bool
}

func (c *vctx) Err() error {
	c.mu.Lock()
	defer c.mu.Unlock()
	if c.timedOut {
		return context.DeadlineExceeded
	}
	return c.Context.Err()
}

// FireDue fires every live ticker and timer whose label contains sub and whose due time has been reached by
// the virtual clock (timer: creation + period; ticker: every full period since creation, at most one tick per
// call - a real ticker drops ticks nobody collected). It returns the number of waiters fired. Harnesses that
// let the clock advance in small steps use it so that WHEN a tick happens is decided by the code under test
// (which timer it created, when, and whether it re-armed it), not by the harness.
func FireDue(sub string) int {
	n := 0
	for _, w := range Waiters() {
		if w.Kind == "sleep" || !strings.Contains(w.Label, sub) {
			continue
		}
		mu.Lock()
		due := false
		switch w.Kind {
		case "timer":
			due = !now.Before(w.Created.Add(w.Period))
		case "ticker":
			base := w.lastDue
			if base.IsZero() {
				base = w.Created
			}
			if k := now.Sub(base) / w.Period; k >= 1 {
				due = true
				w.lastDue = base.Add(k * w.Period)
			}
		}
		mu.Unlock()
		if due && w.Fire() {
			n++
		}
	}
	return n
}

func (w *Waiter) Fire() bool {
	mu.Lock()
	activity++
	if w.stopped || (w.Kind != "ticker" && w.fired) {
		mu.Unlock()
		return false
	}
	t := now
	if w.Kind != "ticker" {
		w.fired = true
	}
	f, rel := w.f, w.release
	mu.Unlock()
	switch {
	case rel != nil:
		close(rel)
		return true
	case f != nil:
		go f()
		return true
	}
	select {
	case w.C <- t:
		return true
	default:
		return false
	}
}
