// Package keys is the fixed guardian key table used by all harnesses (deterministic, no randomness).
package keys

import (
	"crypto/ecdsa"
	"fmt"
	"sync"

	"github.com/ethereum/go-ethereum/common"
	"github.com/ethereum/go-ethereum/crypto"
)

var (
	mu    sync.RWMutex
	table = map[int]*ecdsa.PrivateKey{}
)

// Key returns the i-th fixed private key. Index -1 and below are "outsiders" by convention.
func Key(i int) *ecdsa.PrivateKey {
	mu.RLock()
	k, ok := table[i]
	mu.RUnlock()
	if ok {
		return k
	}
	mu.Lock()
	defer mu.Unlock()
	if k, ok := table[i]; ok {
		return k
	}
	seed := crypto.Keccak256([]byte(fmt.Sprintf("verif guardian key %d", i)))
	k, err := crypto.ToECDSA(seed)
	if err != nil {
		panic(err)
	}
	table[i] = k
	return k
}

var addrCache sync.Map

func Addr(i int) common.Address {
	if a, ok := addrCache.Load(i); ok {
		return a.(common.Address)
	}
	a := crypto.PubkeyToAddress(Key(i).PublicKey)
	addrCache.Store(i, a)
	return a
}

// Addrs returns the addresses of keys ids[0], ids[1], ...
func Addrs(ids ...int) []common.Address {
	out := make([]common.Address, len(ids))
	for i, id := range ids {
		out[i] = Addr(id)
	}
	return out
}

// Range returns ids from..to-1.
func Range(from, to int) []int {
	var out []int
	for i := from; i < to; i++ {
		out = append(out, i)
	}
	return out
}

type sigKey struct {
	k int
	d [32]byte
}

var (
	sigMu    sync.RWMutex
	sigCache = map[sigKey][]byte{}
)

// Sign signs a 32-byte digest with key i (cached; signatures are deterministic, RFC 6979).
func Sign(i int, digest []byte) []byte {
	var d [32]byte
	copy(d[:], digest)
	sigMu.RLock()
	s, ok := sigCache[sigKey{i, d}]
	sigMu.RUnlock()
	if ok {
		return append([]byte{}, s...)
	}
	s, err := crypto.Sign(digest, Key(i))
	if err != nil {
		panic(err)
	}
	sigMu.Lock()
	sigCache[sigKey{i, d}] = s
	sigMu.Unlock()
	return append([]byte{}, s...)
}

// Signer implements the node's ecdsasigner.ECDSASigner interface over key i.
type Signer struct{ I int }

func (s Signer) Sign(digest []byte) ([]byte, error) { return Sign(s.I, digest), nil }
func (s Signer) PublicKey() ecdsa.PublicKey         { return Key(s.I).PublicKey }
