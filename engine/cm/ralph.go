package cm

import (
	"fmt"
	"math/big"
	"os"
	"regexp"
	"strconv"
	"strings"
)

// RalphAction is the payload-parsing part of one Ralph governance entry point: the ordered list of
// slice reads / integer lets / the exact-size assertion it performs on `payload`.
type RalphAction struct {
	Source string      `json:"source"`
	Func   string      `json:"func"`
	Action string      `json:"action_enum"` // ActionId.<name> passed to parseAndVerifyGovernanceVAA
	Steps  []RalphStep `json:"steps"`
}

type RalphStep struct {
	Kind string `json:"kind"` // "read" | "let" | "assert_size"
	Name string `json:"name,omitempty"`
	From string `json:"from,omitempty"` // read: lower bound expression
	To   string `json:"to,omitempty"`   // read: upper bound expression
	Num  int    `json:"num_bytes,omitempty"` // read through u256From<Num>Byte!
	Expr string `json:"expr,omitempty"` // let / assert_size
}

var (
	reRead   = regexp.MustCompile(`^let (?:mut )?(\w+) = (?:u256From(\d+)Byte!\(|byteVecToAddress!\()?byteVecSlice!\(payload, ([^,]+), ([^)]+)\)\)?$`)
	reLet    = regexp.MustCompile(`^let (?:mut )?(\w+) = ([\w\s+*/()-]+)$`)
	reSize   = regexp.MustCompile(`^assert!\(size!\(payload\) == ([\w\s+*/()-]+), `)
	reAction = regexp.MustCompile(`parseAndVerifyGovernanceVAA\(vaa, ActionId\.(\w+)\)`)
	rePayloadWord = regexp.MustCompile(`\bpayload\b`)
	reAssign = regexp.MustCompile(`^[\w\[\]]+ = byteVecSlice!\(payload, ([^,]+), ([^)]+)\)$`)
)

// ExtractRalphAction reads function fn (and, if inner is given, the helper it delegates parsing to).
func ExtractRalphAction(path, fn string) (*RalphAction, error) {
	b, err := os.ReadFile(path)
	if err != nil {
		return nil, err
	}
	src := string(b)
	i := strings.Index(src, "fn "+fn+"(")
	if i < 0 {
		return nil, fmt.Errorf("%s: fn %s not found", path, fn)
	}
	j := strings.Index(src[i:], "\n    }\n")
	if j < 0 {
		return nil, fmt.Errorf("%s: end of %s not found", path, fn)
	}
	body := src[i : i+j]
	a := &RalphAction{Source: path, Func: fn}
	if m := reAction.FindStringSubmatch(body); m != nil {
		a.Action = m[1]
	} else {
		return nil, fmt.Errorf("%s.%s: governance action not recognised", path, fn)
	}
	for _, raw := range strings.Split(body, "\n")[1:] {
		l := strings.TrimSpace(raw)
		if k := strings.Index(l, "//"); k >= 0 {
			l = strings.TrimSpace(l[:k])
		}
		switch {
		case reRead.MatchString(l):
			m := reRead.FindStringSubmatch(l)
			st := RalphStep{Kind: "read", Name: m[1], From: strings.TrimSpace(m[3]), To: strings.TrimSpace(m[4])}
			if m[2] != "" {
				st.Num, _ = strconv.Atoi(m[2])
			}
			a.Steps = append(a.Steps, st)
		case reAssign.MatchString(l):
			m := reAssign.FindStringSubmatch(l)
			a.Steps = append(a.Steps, RalphStep{Kind: "read", Name: "assigned_slice", From: strings.TrimSpace(m[1]), To: strings.TrimSpace(m[2])})
		case reSize.MatchString(l):
			a.Steps = append(a.Steps, RalphStep{Kind: "assert_size", Expr: strings.TrimSpace(reSize.FindStringSubmatch(l)[1])})
		case rePayloadWord.MatchString(l) && strings.HasPrefix(l, "let ") && !strings.Contains(l, "parseAndVerifyGovernanceVAA") && !strings.Contains(l, "parseContractUpgrade"):
			return nil, fmt.Errorf("%s.%s: statement on payload outside the recognised subset: %q", path, fn, l)
		case reLet.MatchString(l) && !strings.Contains(l, "!"):
			m := reLet.FindStringSubmatch(l)
			// only integer lets over names already defined are interesting; others are skipped at Eval
			a.Steps = append(a.Steps, RalphStep{Kind: "let", Name: m[1], Expr: strings.TrimSpace(m[2])})
		}
	}
	return a, nil
}

// RalphResult is what the contract-side parser reads from a concrete payload.
type RalphResult struct {
	Ints   map[string]int64
	Bytes  map[string][]byte
	SizeOK bool   // the exact-size assertion holds (true when the function has none)
	Err    string // a slice out of range: the contract would fail
}

// Eval replays the action's reads on payload.
func (a *RalphAction) Eval(payload []byte) RalphResult {
	r := RalphResult{Ints: map[string]int64{}, Bytes: map[string][]byte{}, SizeOK: true}
	ev := func(s string) (int64, bool) {
		if s == "size!(payload)" {
			return int64(len(payload)), true
		}
		e, err := ParseExpr(s)
		if err != nil {
			return 0, false
		}
		v, err := e.Eval(r.Ints)
		if err != nil {
			return 0, false
		}
		return v, true
	}
	for _, st := range a.Steps {
		switch st.Kind {
		case "read":
			from, ok1 := ev(st.From)
			to, ok2 := ev(st.To)
			if !ok1 || !ok2 {
				r.Err = "cannot evaluate bounds of " + st.Name
				return r
			}
			if from < 0 || to < from || to > int64(len(payload)) {
				r.Err = fmt.Sprintf("slice %s [%d,%d) out of range of a %d-byte payload", st.Name, from, to, len(payload))
				return r
			}
			bs := payload[from:to]
			r.Bytes[st.Name] = bs
			if st.Num > 0 {
				if int64(st.Num) != to-from {
					r.Err = fmt.Sprintf("%s: u256From%dByte on a %d-byte slice", st.Name, st.Num, to-from)
					return r
				}
				v := new(big.Int).SetBytes(bs)
				if v.IsInt64() {
					r.Ints[st.Name] = v.Int64()
				}
			}
		case "let":
			if v, ok := ev(st.Expr); ok {
				r.Ints[st.Name] = v
			}
		case "assert_size":
			v, ok := ev(st.Expr)
			if !ok {
				r.Err = "cannot evaluate size assertion " + st.Expr
				return r
			}
			if v != int64(len(payload)) {
				r.SizeOK = false
			}
		}
	}
	return r
}

// RalphHexConst returns the bytes of `const <name> = 0x...`.
func RalphHexConst(path, name string) ([]byte, error) {
	b, err := os.ReadFile(path)
	if err != nil {
		return nil, err
	}
	m := regexp.MustCompile(`const\s+` + name + `\s*=\s*0x([0-9a-fA-F]+)`).FindStringSubmatch(string(b))
	if m == nil {
		return nil, fmt.Errorf("%s: const %s not found", path, name)
	}
	h := m[1]
	if len(h)%2 == 1 {
		h = "0" + h
	}
	out := make([]byte, len(h)/2)
	for i := range out {
		v, _ := strconv.ParseUint(h[2*i:2*i+2], 16, 8)
		out[i] = byte(v)
	}
	return out, nil
}

// RalphActionIds returns the ActionId enum of a contract file (name -> byte).
func RalphActionIds(path string) (map[string]byte, error) {
	b, err := os.ReadFile(path)
	if err != nil {
		return nil, err
	}
	src := string(b)
	i := strings.Index(src, "enum ActionId {")
	if i < 0 {
		return nil, fmt.Errorf("%s: enum ActionId not found", path)
	}
	j := strings.Index(src[i:], "}")
	out := map[string]byte{}
	for _, m := range regexp.MustCompile(`(\w+)\s*=\s*#([0-9a-fA-F]{2})`).FindAllStringSubmatch(src[i:i+j], -1) {
		v, _ := strconv.ParseUint(m[2], 16, 8)
		out[m[1]] = byte(v)
	}
	if len(out) == 0 {
		return nil, fmt.Errorf("%s: empty ActionId enum", path)
	}
	return out, nil
}
