// Package cm (contract model) extracts small formulas and byte-layout tables from the contract
// sources in the working tree (Solidity / Ralph) and evaluates them, so that Go outputs can be
// replayed through what the contracts actually parse. It recognises a narrow syntactic subset and
// returns an error (harness exit 2) when the source leaves it; it never guesses.
package cm

import (
	"fmt"
	"math/big"
	"strings"
	"unicode"
)

// Expr is an integer expression over named variables with + - * / and parentheses.
type Expr struct {
	op   byte // 'n' literal, 'v' variable, '+', '-', '*', '/'
	n    *big.Int
	v    string
	l, r *Expr
}

type parser struct {
	toks []string
	pos  int
}

func tokenize(s string) ([]string, error) {
	var out []string
	i := 0
	for i < len(s) {
		c := rune(s[i])
		switch {
		case unicode.IsSpace(c):
			i++
		case unicode.IsDigit(c):
			j := i
			for j < len(s) && (unicode.IsDigit(rune(s[j])) || s[j] == '_') {
				j++
			}
			out = append(out, strings.ReplaceAll(s[i:j], "_", ""))
			i = j
		case unicode.IsLetter(c) || c == '_':
			j := i
			for j < len(s) && (unicode.IsLetter(rune(s[j])) || unicode.IsDigit(rune(s[j])) || s[j] == '_' || s[j] == '.' || s[j] == '!') {
				j++
			}
			out = append(out, s[i:j])
			i = j
		case strings.ContainsRune("+-*/()", c):
			out = append(out, string(c))
			i++
		default:
			return nil, fmt.Errorf("unexpected character %q in expression %q", c, s)
		}
	}
	return out, nil
}

// ParseExpr parses an integer expression.
func ParseExpr(s string) (*Expr, error) {
	t, err := tokenize(s)
	if err != nil {
		return nil, err
	}
	p := &parser{toks: t}
	e, err := p.sum()
	if err != nil {
		return nil, err
	}
	if p.pos != len(p.toks) {
		return nil, fmt.Errorf("trailing tokens in %q", s)
	}
	return e, nil
}

func (p *parser) peek() string {
	if p.pos < len(p.toks) {
		return p.toks[p.pos]
	}
	return ""
}

func (p *parser) sum() (*Expr, error) {
	l, err := p.prod()
	if err != nil {
		return nil, err
	}
	for p.peek() == "+" || p.peek() == "-" {
		op := p.toks[p.pos][0]
		p.pos++
		r, err := p.prod()
		if err != nil {
			return nil, err
		}
		l = &Expr{op: op, l: l, r: r}
	}
	return l, nil
}

func (p *parser) prod() (*Expr, error) {
	l, err := p.atom()
	if err != nil {
		return nil, err
	}
	for p.peek() == "*" || p.peek() == "/" {
		op := p.toks[p.pos][0]
		p.pos++
		r, err := p.atom()
		if err != nil {
			return nil, err
		}
		l = &Expr{op: op, l: l, r: r}
	}
	return l, nil
}

func (p *parser) atom() (*Expr, error) {
	t := p.peek()
	if t == "" {
		return nil, fmt.Errorf("unexpected end of expression")
	}
	p.pos++
	if t == "(" {
		e, err := p.sum()
		if err != nil {
			return nil, err
		}
		if p.peek() != ")" {
			return nil, fmt.Errorf("missing )")
		}
		p.pos++
		return e, nil
	}
	if unicode.IsDigit(rune(t[0])) {
		n, ok := new(big.Int).SetString(t, 10)
		if !ok {
			return nil, fmt.Errorf("bad literal %q", t)
		}
		return &Expr{op: 'n', n: n}, nil
	}
	if unicode.IsLetter(rune(t[0])) || t[0] == '_' {
		return &Expr{op: 'v', v: t}, nil
	}
	return nil, fmt.Errorf("unexpected token %q", t)
}

// Vars lists the variables of the expression.
func (e *Expr) Vars() []string {
	m := map[string]bool{}
	var w func(*Expr)
	w = func(x *Expr) {
		if x == nil {
			return
		}
		if x.op == 'v' {
			m[x.v] = true
		}
		w(x.l)
		w(x.r)
	}
	w(e)
	var out []string
	for k := range m {
		out = append(out, k)
	}
	return out
}

// Eval evaluates with unsigned 256-bit semantics (floor division; error on underflow, overflow
// or division by zero, which is what both Solidity 0.8 and Ralph do).
func (e *Expr) Eval(env map[string]int64) (int64, error) {
	v, err := e.eval(env)
	if err != nil {
		return 0, err
	}
	if !v.IsInt64() {
		return 0, fmt.Errorf("result out of int64")
	}
	return v.Int64(), nil
}

var max256 = new(big.Int).Lsh(big.NewInt(1), 256)

func (e *Expr) eval(env map[string]int64) (*big.Int, error) {
	switch e.op {
	case 'n':
		return e.n, nil
	case 'v':
		x, ok := env[e.v]
		if !ok {
			return nil, fmt.Errorf("unbound variable %s", e.v)
		}
		return big.NewInt(x), nil
	}
	l, err := e.l.eval(env)
	if err != nil {
		return nil, err
	}
	r, err := e.r.eval(env)
	if err != nil {
		return nil, err
	}
	z := new(big.Int)
	switch e.op {
	case '+':
		z.Add(l, r)
	case '-':
		z.Sub(l, r)
		if z.Sign() < 0 {
			return nil, fmt.Errorf("underflow")
		}
	case '*':
		z.Mul(l, r)
	case '/':
		if r.Sign() == 0 {
			return nil, fmt.Errorf("division by zero")
		}
		z.Quo(l, r)
	}
	if z.Cmp(max256) >= 0 {
		return nil, fmt.Errorf("overflow")
	}
	return z, nil
}

func (e *Expr) String() string {
	switch e.op {
	case 'n':
		return e.n.String()
	case 'v':
		return e.v
	}
	return "(" + e.l.String() + " " + string(e.op) + " " + e.r.String() + ")"
}
