package cm

import (
	"fmt"
	"os"
	"regexp"
	"strconv"
	"strings"
)

// Field is one fixed-position read a contract performs.
type Field struct {
	Name  string `json:"name"`
	Off   int    `json:"off"`   // offset relative to Base
	Width int    `json:"width"` // -1: to the end of the input
	Base  string `json:"base"`  // "vm" (start of the encoded VAA), "body" or "payload"
}

// VMLayout is what a contract-side VAA parser reads.
type VMLayout struct {
	Source       string  `json:"source"`
	Header       []Field `json:"header"`        // relative to the start of the encoded VAA
	SigStride    int     `json:"sig_stride"`    // bytes per signature entry
	SigStart     int     `json:"sig_start"`     // offset of the first signature entry
	BodyStartC   int     `json:"body_start_c"`  // body start = BodyStartC + BodyStartPer * signatures
	BodyStartPer int     `json:"body_start_per"`
	// BodyStartVar: the variable the contract multiplies the stride with, and SigCountVar: the variable it reads
	// the signature count into (header byte 5). The body starts after the signatures that ARE there.
	BodyStartVar string `json:"body_start_var,omitempty"`
	SigCountVar  string `json:"sig_count_var,omitempty"`
	Body         []Field `json:"body"`          // relative to body start
	DoubleKeccak bool    `json:"double_keccak"` // hash = keccak(keccak(body))
}

func widthOfSolReader(fn string) (int, error) {
	switch {
	case fn == "toBytes32":
		return 32, nil
	case strings.HasPrefix(fn, "toUint"):
		n, err := strconv.Atoi(fn[6:])
		if err != nil || n%8 != 0 {
			return 0, fmt.Errorf("unknown reader %s", fn)
		}
		return n / 8, nil
	}
	return 0, fmt.Errorf("unknown reader %s", fn)
}

// ExtractSolidityParseVM walks the straight-line body of Messages.sol parseVM.
func ExtractSolidityParseVM(path string) (*VMLayout, error) {
	b, err := os.ReadFile(path)
	if err != nil {
		return nil, err
	}
	src := string(b)
	i := strings.Index(src, "function parseVM(")
	if i < 0 {
		return nil, fmt.Errorf("parseVM not found")
	}
	j := strings.Index(src[i:], "\n    }\n")
	if j < 0 {
		return nil, fmt.Errorf("end of parseVM not found")
	}
	fn := src[i : i+j]
	L := &VMLayout{Source: path}
	reRead := regexp.MustCompile(`^(?:uint\d*\s+)?([\w.\[\]]+)\s*=\s*encodedVM\.(to\w+)\(index\)(\s*\+\s*27)?;$`)
	reAdv := regexp.MustCompile(`^index\s*\+=\s*(\d+);$`)
	reFor := regexp.MustCompile(`^for\s*\(uint i = 0; i < signersLen; i\+\+\)\s*\{$`)
	reBody := regexp.MustCompile(`^bytes memory body = encodedVM\.slice\(index, encodedVM\.length - index\);$`)
	rePayload := regexp.MustCompile(`^vm\.payload = encodedVM\.slice\(index, encodedVM\.length - index\);$`)
	reHash := regexp.MustCompile(`^vm\.hash = keccak256\(abi\.encodePacked\(keccak256\(body\)\)\);$`)
	off, inLoop, loopSum, pendingW, inBody, bodyStart := 0, false, 0, -1, false, 0
	lines := strings.Split(fn, "\n")
	for _, raw := range lines[1:] {
		l := strings.TrimSpace(raw)
		if k := strings.Index(l, "//"); k >= 0 {
			l = strings.TrimSpace(l[:k])
		}
		switch {
		case l == "" || l == "uint index = 0;" || strings.HasPrefix(l, "require(vm.version == 1") || strings.HasPrefix(l, "vm.signatures = new "):
		case reFor.MatchString(l):
			inLoop = true
			L.SigStart = off
		case l == "}":
			if !inLoop {
				return nil, fmt.Errorf("unexpected }")
			}
			inLoop = false
			L.SigStride = loopSum
		case reRead.MatchString(l):
			m := reRead.FindStringSubmatch(l)
			w, err := widthOfSolReader(m[2])
			if err != nil {
				return nil, err
			}
			if pendingW != -1 {
				return nil, fmt.Errorf("read without advance before %q", l)
			}
			pendingW = w
			name := strings.TrimPrefix(m[1], "vm.")
			f := Field{Name: name, Width: w}
			switch {
			case inLoop:
				f.Off, f.Base = loopSum, "sig"
				L.Header = append(L.Header, f)
			case inBody:
				f.Off, f.Base = off-bodyStart, "body"
				L.Body = append(L.Body, f)
			default:
				f.Off, f.Base = off, "vm"
				L.Header = append(L.Header, f)
			}
		case reAdv.MatchString(l):
			k, _ := strconv.Atoi(reAdv.FindStringSubmatch(l)[1])
			if pendingW != k {
				return nil, fmt.Errorf("advance %d does not match the width %d just read (%q)", k, pendingW, l)
			}
			pendingW = -1
			if inLoop {
				loopSum += k
			} else {
				off += k
			}
		case reBody.MatchString(l):
			inBody, bodyStart = true, off
			L.BodyStartC = off
		case reHash.MatchString(l):
			L.DoubleKeccak = true
		case rePayload.MatchString(l):
			L.Body = append(L.Body, Field{Name: "payload", Off: off - bodyStart, Width: -1, Base: "body"})
		default:
			return nil, fmt.Errorf("parseVM statement outside the recognised subset: %q", l)
		}
	}
	if L.SigStride == 0 || !inBody {
		return nil, fmt.Errorf("signature loop or body slice not recognised")
	}
	L.BodyStartPer = L.SigStride
	return L, nil
}

// ExtractRalphParseVAA reads the fixed slices of governance.ral parseAndVerifyVAA.
func ExtractRalphParseVAA(path string) (*VMLayout, error) {
	b, err := os.ReadFile(path)
	if err != nil {
		return nil, err
	}
	src := string(b)
	i := strings.Index(src, "pub fn parseAndVerifyVAA(")
	if i < 0 {
		return nil, fmt.Errorf("parseAndVerifyVAA not found")
	}
	j := strings.Index(src[i:], "\n    }\n")
	fn := src[i : i+j]
	L := &VMLayout{Source: path}
	// body slice
	m := regexp.MustCompile(`let body = byteVecSlice!\(data, (\d+) \+ (\w+) \* (\d+), size!\(data\)\)`).FindStringSubmatch(fn)
	if m == nil {
		return nil, fmt.Errorf("body slice not recognised")
	}
	L.BodyStartC, _ = strconv.Atoi(m[1])
	L.BodyStartVar = m[2]
	L.BodyStartPer, _ = strconv.Atoi(m[3])
	if sc := regexp.MustCompile(`let (\w+) = u256From1Byte!\(byteVecSlice!\(data, 5, 6\)\)`).FindStringSubmatch(fn); sc != nil {
		L.SigCountVar = sc[1]
	} else {
		return nil, fmt.Errorf("signature count read not recognised")
	}
	if !regexp.MustCompile(`let hash = keccak256!\(keccak256!\(body\)\)`).MatchString(fn) {
		return nil, fmt.Errorf("hash rule not recognised")
	}
	L.DoubleKeccak = true
	// header reads on data
	if !regexp.MustCompile(`assert!\(byteVecSlice!\(data, 0, 1\) == Version,`).MatchString(fn) {
		return nil, fmt.Errorf("version check not recognised")
	}
	L.Header = append(L.Header, Field{Name: "version", Off: 0, Width: 1, Base: "vm"})
	reHdr := regexp.MustCompile(`let (\w+) = u256From(\d+)Byte!\(byteVecSlice!\(data, (\d+), (\d+)\)\)`)
	for _, h := range reHdr.FindAllStringSubmatch(fn, -1) {
		n, _ := strconv.Atoi(h[2])
		a, _ := strconv.Atoi(h[3])
		e, _ := strconv.Atoi(h[4])
		if e-a != n {
			return nil, fmt.Errorf("%s: slice [%d,%d) does not match u256From%dByte", h[1], a, e, n)
		}
		L.Header = append(L.Header, Field{Name: h[1], Off: a, Width: n, Base: "vm"})
	}
	// signature loop: offset starts at 6, entry = 1 + 65, stride from "offset = offset + K"
	ms := regexp.MustCompile(`let mut offset = (\d+)`).FindStringSubmatch(fn)
	mst := regexp.MustCompile(`offset = offset \+ (\d+)`).FindStringSubmatch(fn)
	if ms == nil || mst == nil {
		return nil, fmt.Errorf("signature loop not recognised")
	}
	L.SigStart, _ = strconv.Atoi(ms[1])
	L.SigStride, _ = strconv.Atoi(mst[1])
	if !strings.Contains(fn, "byteVecSlice!(data, offset, offset + 1)") || !strings.Contains(fn, fmt.Sprintf("byteVecSlice!(data, offset + 1, offset + %d)", L.SigStride)) {
		return nil, fmt.Errorf("signature entry slices not recognised")
	}
	// body reads
	reBody := regexp.MustCompile(`let (\w+) = (?:u256From(\d+)Byte!\()?byteVecSlice!\(body, (\d+), (\d+|size!\(body\))\)\)?`)
	for _, h := range reBody.FindAllStringSubmatch(fn, -1) {
		a, _ := strconv.Atoi(h[3])
		w := -1
		if h[4] != "size!(body)" {
			e, _ := strconv.Atoi(h[4])
			w = e - a
		}
		if h[2] != "" {
			n, _ := strconv.Atoi(h[2])
			if n != w {
				return nil, fmt.Errorf("%s: slice width %d does not match u256From%dByte", h[1], w, n)
			}
		}
		L.Body = append(L.Body, Field{Name: h[1], Off: a, Width: w, Base: "body"})
	}
	if len(L.Body) < 5 {
		return nil, fmt.Errorf("only %d body fields recognised", len(L.Body))
	}
	return L, nil
}

// BodyStart for an encoding with nsig signatures.
func (l *VMLayout) BodyStart(nsig int) int { return l.BodyStartC + l.BodyStartPer*nsig }

// Read returns the bytes a contract reads for field f from encoded (nil if out of range: the
// contract would revert).
func (l *VMLayout) Read(encoded []byte, nsig int, f Field) []byte {
	base := 0
	if f.Base == "body" {
		base = l.BodyStart(nsig)
	}
	a := base + f.Off
	if a > len(encoded) {
		return nil
	}
	if f.Width < 0 {
		return encoded[a:]
	}
	if a+f.Width > len(encoded) {
		return nil
	}
	return encoded[a : a+f.Width]
}
