//go:build verif

package db

import (
	"github.com/dgraph-io/badger/v3"
)

// Verification hooks (build tag verif, supplied through the build overlay only).

// VerifOpenInMemory opens the real Database type over an in-memory badger instance.
func VerifOpenInMemory() (*Database, error) {
	d, err := badger.Open(badger.DefaultOptions("").WithInMemory(true).WithLogger(nil).WithMemTableSize(8 << 20).WithNumMemtables(2).WithValueThreshold(1 << 16))
	if err != nil {
		return nil, err
	}
	return &Database{db: d}, nil
}

// VerifKeys lists every key in the store.
func (d *Database) VerifKeys() []string {
	var out []string
	d.db.View(func(txn *badger.Txn) error {
		it := txn.NewIterator(badger.DefaultIteratorOptions)
		defer it.Close()
		for it.Rewind(); it.Valid(); it.Next() {
			out = append(out, string(it.Item().KeyCopy(nil)))
		}
		return nil
	})
	return out
}

// VerifWipe deletes every key (between explored histories that share one in-memory store).
func (d *Database) VerifWipe() error {
	keys := d.VerifKeys()
	if len(keys) == 0 {
		return nil
	}
	return d.db.Update(func(txn *badger.Txn) error {
		for _, k := range keys {
			if err := txn.Delete([]byte(k)); err != nil {
				return err
			}
		}
		return nil
	})
}

// VerifGetRaw returns the bytes stored under a raw key.
func (d *Database) VerifGetRaw(key string) ([]byte, error) {
	var out []byte
	err := d.db.View(func(txn *badger.Txn) error {
		it, err := txn.Get([]byte(key))
		if err != nil {
			return err
		}
		out, err = it.ValueCopy(nil)
		return err
	})
	return out, err
}

// VerifDeleteKeys deletes the given raw keys.
func (d *Database) VerifDeleteKeys(keys []string) error {
	if len(keys) == 0 {
		return nil
	}
	return d.db.Update(func(txn *badger.Txn) error {
		for _, k := range keys {
			if err := txn.Delete([]byte(k)); err != nil {
				return err
			}
		}
		return nil
	})
}
