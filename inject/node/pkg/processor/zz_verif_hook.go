//go:build verif

package processor

import (
	"context"
	"encoding/hex"
	"sort"
	"time"

	"github.com/alephium/wormhole-fork/node/pkg/common"
	gossipv1 "github.com/alephium/wormhole-fork/node/pkg/proto/gossip/v1"
	"github.com/alephium/wormhole-fork/node/pkg/vaa"
)

// Verification hooks (build tag verif, supplied through the build overlay only). They add exported
// wrappers around the unexported handlers and a read-only snapshot of the aggregation state.

type VerifInject struct{ V *vaa.VAA }
type VerifTick struct{}

// VerifDispatch performs exactly one iteration of the Run loop's select for the given event.
func (p *Processor) VerifDispatch(ctx context.Context, ev interface{}) {
	switch e := ev.(type) {
	case *common.GuardianSet:
		p.gs = e
		p.gst.Set(p.gs)
	case *common.MessagePublication:
		p.handleMessage(ctx, e)
	case *gossipv1.SignedObservation:
		p.handleObservation(ctx, e)
	case *gossipv1.SignedVAAWithQuorum:
		p.handleInboundSignedVAAWithQuorum(ctx, e)
	case VerifInject:
		p.handleInjection(ctx, e.V)
	case VerifTick:
		p.handleCleanup(ctx)
	default:
		panic("verif: unknown event type")
	}
}

type VerifEntry struct {
	Digest        string
	Signers       []string
	HasOurVAA     bool
	OurVAASetIdx  int64
	SnapSetIdx    int64
	Submitted     bool
	Settled       bool
	RetryCount    uint
	FirstObserved time.Time
	LastRetry     time.Time
	HasOurMsg     bool
	OurMsg        []byte
	Source        string
	TxHash        []byte
}

func (p *Processor) VerifSnapshot() []VerifEntry {
	out := make([]VerifEntry, 0, len(p.state.vaaSignatures))
	for h, s := range p.state.vaaSignatures {
		e := VerifEntry{Digest: h, HasOurVAA: s.ourVAA != nil, OurVAASetIdx: -1, SnapSetIdx: -1, Submitted: s.submitted, Settled: s.settled,
			RetryCount: s.retryCount, FirstObserved: s.firstObserved, LastRetry: s.lastRetry, HasOurMsg: s.ourMsg != nil, OurMsg: s.ourMsg, Source: s.source, TxHash: s.txHash}
		if s.ourVAA != nil {
			e.OurVAASetIdx = int64(s.ourVAA.GuardianSetIndex)
		}
		if s.gs != nil {
			e.SnapSetIdx = int64(s.gs.Index)
		}
		for a := range s.signatures {
			e.Signers = append(e.Signers, hex.EncodeToString(a[:]))
		}
		sort.Strings(e.Signers)
		out = append(out, e)
	}
	sort.Slice(out, func(i, j int) bool { return out[i].Digest < out[j].Digest })
	return out
}

func (p *Processor) VerifSetRetryCount(digest string, n uint) bool {
	s := p.state.vaaSignatures[digest]
	if s == nil {
		return false
	}
	s.retryCount = n
	return true
}

func (p *Processor) VerifEntries() int { return len(p.state.vaaSignatures) }
