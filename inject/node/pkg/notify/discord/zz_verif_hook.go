//go:build verif

package discord

import (
	"context"
	"errors"

	"github.com/diamondburned/arikawa/v3/api"
	"github.com/diamondburned/arikawa/v3/utils/httputil/httpdriver"
	"go.uber.org/zap"
)

// Verification hooks (build tag verif, supplied through the build overlay only).

type verifRefuse struct{}

func (verifRefuse) NewRequest(ctx context.Context, method, url string) (httpdriver.Request, error) {
	return nil, errors.New("verif: offline notifier")
}
func (verifRefuse) Do(httpdriver.Request) (httpdriver.Response, error) {
	return nil, errors.New("verif: offline notifier")
}

// VerifOffline returns a configured notifier whose HTTP driver refuses every request: the processor takes the
// branches that only run when a Discord token is configured, nothing touches the network.
func VerifOffline() *DiscordNotifier {
	c := api.NewClient("Bot offline")
	c.Client.Client = verifRefuse{}
	return &DiscordNotifier{c: c, logger: zap.NewNop(), groupToID: make(map[string]string)}
}
