//go:build verif

package alephium

import (
	sdk "github.com/alephium/go-sdk"
	"github.com/alephium/wormhole-fork/node/pkg/common"
)

// Verification hooks (build tag verif, supplied through the build overlay only).

func (w *WormholeMessage) VerifToMessagePublication(header *sdk.BlockHeaderEntry) *common.MessagePublication {
	return w.toMessagePublication(header)
}

type VerifMsgFields struct {
	TxId             string
	SenderId         Byte32
	TargetChainId    uint16
	Nonce            uint32
	Payload          []byte
	Sequence         uint64
	ConsistencyLevel uint8
}

func (w *WormholeMessage) VerifFields() VerifMsgFields {
	return VerifMsgFields{w.txId, w.senderId, w.targetChainId, w.nonce, w.payload, w.Sequence, w.consistencyLevel}
}

func VerifParseAttestToken(payload []byte) (*TokenInfo, error) { return parseAttestToken(payload) }
