//go:build verif

package supervisor

// Verification hooks (build tag verif, supplied through the build overlay only).

// VerifSupervisor lets a harness keep the value returned by New.
type VerifSupervisor = supervisor

// VerifDrain receives every request that is pending on the processor's request channel. It is used
// only after the processor has exited (context cancelled), so that runnable goroutines reporting
// their exit and back-off sleepers of an abandoned execution can end instead of leaking.
func (s *supervisor) VerifDrain() int {
	n := 0
	for {
		select {
		case <-s.pReq:
			n++
		default:
			return n
		}
	}
}
