//go:build verif

package ecdsasigner

import (
	"crypto/ecdsa"
	"encoding/asn1"
	"math/big"

	ethcrypto "github.com/ethereum/go-ethereum/crypto"
)

// Verification hooks (build tag verif, supplied through the build overlay only).

// VerifKMSPathSign produces a signature the way the Cloud KMS signer does after the service has answered:
// the (deterministic, RFC 6979) signature of key over digest is DER-encoded as the service returns it and then
// goes through the real parseSignature / appendV hand-over to the 65-byte form the processor broadcasts.
func VerifKMSPathSign(key *ecdsa.PrivateKey, digest []byte) ([]byte, error) {
	sig, err := ethcrypto.Sign(digest, key)
	if err != nil {
		return nil, err
	}
	der, err := asn1.Marshal(struct{ R, S *big.Int }{new(big.Int).SetBytes(sig[:32]), new(big.Int).SetBytes(sig[32:64])})
	if err != nil {
		return nil, err
	}
	return parseSignature(der, digest, ethcrypto.PubkeyToAddress(key.PublicKey))
}
