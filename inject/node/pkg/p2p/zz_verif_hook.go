//go:build verif

package p2p

import (
	node_common "github.com/alephium/wormhole-fork/node/pkg/common"
	gossipv1 "github.com/alephium/wormhole-fork/node/pkg/proto/gossip/v1"
	"github.com/libp2p/go-libp2p/core/peer"
)

// Verification hooks (build tag verif, supplied through the build overlay only): exported wrappers
// around the two gossip verifiers.

func VerifProcessSignedHeartbeat(from peer.ID, s *gossipv1.SignedHeartbeat, gs *node_common.GuardianSet, gst *node_common.GuardianSetState, disableVerify bool) (*gossipv1.Heartbeat, error) {
	return processSignedHeartbeat(from, s, gs, gst, disableVerify)
}

func VerifProcessSignedObservationRequest(s *gossipv1.SignedObservationRequest, gs *node_common.GuardianSet) (*gossipv1.ObservationRequest, error) {
	return processSignedObservationRequest(s, gs)
}
