//go:build verif

package guardiand

import (
	"context"

	"github.com/alephium/wormhole-fork/node/pkg/db"
	gossipv1 "github.com/alephium/wormhole-fork/node/pkg/proto/gossip/v1"
	"github.com/alephium/wormhole-fork/node/pkg/vaa"
	"github.com/benbjohnson/clock"
	"go.uber.org/zap"
)

// Verification hooks (build tag verif, supplied through the build overlay only): exported wrappers
// around unexported functions of the guardiand package.

type VerifPrivilegedService = nodePrivilegedService

func VerifNewPrivilegedService(d *db.Database, injectC chan<- *vaa.VAA, obsvReqSendC chan *gossipv1.ObservationRequest,
	signedInC chan *gossipv1.SignedVAAWithQuorum, govChain vaa.ChainID, govAddr vaa.Address) *nodePrivilegedService {
	return &nodePrivilegedService{db: d, injectC: injectC, obsvReqSendC: obsvReqSendC, logger: zap.NewNop(), signedInC: signedInC,
		governanceChainId: govChain, governanceEmitterAddress: govAddr}
}

func VerifHandleReobservationRequests(ctx context.Context, clk clock.Clock, obsvReqC <-chan *gossipv1.ObservationRequest,
	chainObsvReqC map[vaa.ChainID]chan *gossipv1.ObservationRequest) {
	handleReobservationRequests(ctx, clk, zap.NewNop(), obsvReqC, chainObsvReqC)
}

