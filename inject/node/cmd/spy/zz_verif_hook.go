//go:build verif

package spy

import "go.uber.org/zap"

// Verification hooks (build tag verif, supplied through the build overlay only).

type VerifSpyServer = spyServer

func VerifNewSpyServer() *spyServer { return newSpyServer(zap.NewNop()) }

// VerifSubs returns the number of live subscriptions (takes the server's own mutex).
func (s *spyServer) VerifSubs() int {
	s.subsMu.Lock()
	defer s.subsMu.Unlock()
	return len(s.subs)
}

// VerifUnblock empties every subscription channel without taking the mutex, so that Publish calls
// parked on a subscriber that stopped reading can end when an explored execution is abandoned.
func (s *spyServer) VerifUnblock() {
	for _, sub := range s.subs {
		for {
			select {
			case <-sub.ch:
				continue
			default:
			}
			break
		}
	}
}
