//go:build verif

package guardiansets

import "github.com/alephium/wormhole-fork/node/pkg/common"

// Verification hooks (build tag verif, supplied through the build overlay only).

// VerifAppend feeds a batch of guardian sets to the store the way the periodic refresh and the
// on-demand fetch do.
func (gs *GuardianSets) VerifAppend(sets []*common.GuardianSet) error { return gs.updateGuardianSets(sets) }

// VerifList returns the Index field of the set stored at every position.
func (gs *GuardianSets) VerifList() []uint32 {
	out := make([]uint32, len(gs.guardianSetLists))
	for i, s := range gs.guardianSetLists {
		out[i] = s.Index
	}
	return out
}

func (gs *GuardianSets) VerifCurrentIndex() int { return gs.currentGuardianSetIndex }
