//go:build verif

package processor

import "github.com/alephium/wormhole-fork/node/pkg/vaa"

// Verification hooks (build tag verif, supplied through the build overlay only).

func (m *Message) VerifVAA() *vaa.VAA    { return m.vaa }
func (m *Message) VerifSerialized() []byte { return m.serialized }
